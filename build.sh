#!/bin/bash
# rebuilds the explorer against the repository's current working tree (hooks on: -tags verif)
# VERIF_REPO (default /repo) selects the tree; a non-default tree gets its own binary + modfile under scratch/.
set -eu
VERIF=$(cd "$(dirname "$0")" && pwd)
source "$VERIF/env.sh"
REPO=${VERIF_REPO:-/repo}
mkdir -p "$VERIF/bin" "$VERIF/evidence" "$VERIF/replays"
cd "$VERIF/mc"
if [ "$REPO" = /repo ]; then
  cp /repo/go.sum ./go.sum
  $GO build -tags verif -o "$VERIF/bin/verifmc" .
else
  tag=$(echo "$REPO" | tr '/' '_')
  mkdir -p "$VERIF/scratch/$tag"
  sed "s#=> /repo#=> $REPO#" go.mod > "$VERIF/scratch/$tag/go.mod"
  cp "$REPO/go.sum" "$VERIF/scratch/$tag/go.sum"
  $GO build -modfile="$VERIF/scratch/$tag/go.mod" -tags verif -o "$VERIF/scratch/$tag/verifmc" .
fi
