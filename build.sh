#!/bin/bash
# rebuilds the explorer against /repo's current working tree (hooks on: -tags verif)
set -eu
VERIF=$(cd "$(dirname "$0")" && pwd)
source "$VERIF/env.sh"
mkdir -p "$VERIF/bin" "$VERIF/evidence" "$VERIF/replays"
cd "$VERIF/mc"
cp /repo/go.sum ./go.sum
$GO build -tags verif -o "$VERIF/bin/verifmc" .
