# sourced by every check: offline Go environment
export GOFLAGS=-mod=mod GOPROXY=off GOTOOLCHAIN=local
export GO=go1.26.8
export GOCACHE=${GOCACHE:-/root/.cache/go-build}
