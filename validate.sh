#!/bin/bash
# validates MANIFEST.json and all evidence files against the schemas
python3-vt - <<'PY'
import json,jsonschema,glob,sys
ok=True
try:
    jsonschema.validate(json.load(open('/verif/MANIFEST.json')), json.load(open('/root/.vp/MANIFEST.schema.json')))
except Exception as e:
    ok=False; print("MANIFEST:", e)
es=json.load(open('/root/.vp/EVIDENCE.schema.json'))
for f in sorted(glob.glob('/verif/evidence/*.json')):
    try: jsonschema.validate(json.load(open(f)), es)
    except Exception as e:
        ok=False; print(f, str(e)[:300])
print("valid" if ok else "INVALID"); sys.exit(0 if ok else 1)
PY
