#!/usr/bin/env python3
# Generates MANIFEST.json from the table below (kept in one place so it stays valid).
import json, subprocess
props = [json.loads(l) for l in open('/verif/properties.jsonl')]
hook_commit = subprocess.run(['git','-C','/repo','log','--format=%H','--grep=^verif:'],capture_output=True,text=True).stdout.split()

E1 = "E1 closed-world explicit-state explorer over real dbft.DBFT instances (hand-written, deviation-bounded DFS with state caching)"
E1T = "explicit-state model checking of the real implementation: deviation-bounded (k) exhaustive exploration of delivery/timer/Byzantine schedules with state deduplication, monitor evaluated in every state"
E1N = "Trusted: harness payload/block/signature types (unforgeable by construction), 64-bit content hashes, reflective whole-struct state fingerprint, virtual timer; bounds N<=7, views<=2-3, heights<=2-3, k<=2 (quick) / 3 (thorough); a run cut by its time budget reports exhaustive=false with the bound completed."
def e1(text, design): return dict(level="model_checking", engine="E1", technique=E1T, text=text, note=E1N, design=design)
claimed = {
 "C01": e1("Every execution with <=k deviations from the default schedule, around each base scenario (fault-free, silent primary, one Byzantine member at every position with equivocation/garbage/replay menu, amnesia restart, N=1..7, anti-MEV off/on/switch), is explored on real library instances and agreement is evaluated in every state. Bounded exhaustive coverage is the right level: agreement is a safety property over all schedules and fault sequences, which no sampled test can settle.", "4 C01"),
 "C02": e1("At every ProcessBlock/ProcessPreBlock callback reached in the explored space the oracle itself re-verifies the held (pre)commits against the block and compares the block with the ledger tip and the primary's proposal. Early, other-view, duplicated and invalid (pre)commits are menu items of the Byzantine member, so the orders that matter are enumerated, not sampled.", "4 C02"),
 "C03": e1("The complete Broadcast history of every honest node in every explored execution is checked for equivocation, commit lock and view monotonicity; ChangeView floods, recovery traffic, duplicates and repeated timeouts are in the event alphabet.", "4 C03"),
 "C04": e1("Every broadcast and every view increase in the explored space is checked against the node's exported Context at that instant (proposal origin, transactions, verification verdict, M preparations naming the proposal, M change views for the entered view from the monitor's own record).", "4 C04"),
 "C07": e1("Per-node callback order (PreCommit, ProcessPreBlock, Commit, NewBlockFromContext/Sign, ProcessBlock) is checked in every explored execution with anti-MEV on, switching on at the second height, and off, including failing ProcessPreBlock and Byzantine pre-commits.", "4 C07"),
 "C10": e1("After every API call of every explored execution the virtual timer of each undecided validator is compared with the node's (height, view); nested view changes during cached-payload replay are reached through the silent-primary bases and replay-order deviations.", "4 C10"),
 "C08": e1("Timed mode (virtual clock, zero-delay network = every message delivered before the next timer expires), all validators honest: every delivery order / duplicate / delayed Reset / held message / cached-payload replay order within <=k deviations of FIFO for N=1..7, every interleaving at two focus nodes for N=4; plus E2 saturation strata: one real node (backup or primary, N=4..7, anti-MEV off/on) receives the complete fault-free message set of a round, each payload once, in EVERY order, and must have accepted the block in every terminal state; oracle: every node decides every height in view 0 on one hash, no ChangeView or RecoveryRequest is ever broadcast, no stuck terminal state.", "4 C08"),
 "C13": e1("A watch-only member (flag at every validator position, or outside the list) is explored in closed-world runs and alone against the unconstrained E2 environment alphabet; the oracle is zero Broadcast / Sign / SetData calls in every state.", "4 C13"),
 "C16": e1("Timed mode with the maximum-block-time extension: 170 scenarios (ratios, N, instants at which a transaction appears, anti-MEV) each explored with <=k deviations in delivery/notification order (incl. one node's OnNewTransaction notification outrun by the message traffic); oracle on virtual-time stamps of proposals, subscription calls and absence of ChangeView/RecoveryRequest; control group without the extension.", "4 C16"),
 "C17": dict(level="model_checking", engine="E5", technique="stateless exploration of delivery schedules (deviation-bounded) of the real simulation program under testing/synctest with harness-controlled channels and virtual time", text="The real package main of internal/simulation (real Run goroutines, Broadcast, ProcessBlock, timer.Timer) is executed in a synctest bubble where the harness alone decides which pending payload is delivered next and when a virtual second passes; all schedules with <=1 (quick) / <=2 (thorough) deviations (queue jump, hold until quiescence, early second) are executed for validator counts 1..7, watchers, blocked validator; plus a free-running -race pass.", note="Trusted: go1.26.8 testing/synctest; the independence argument for node goroutines between harness steps (they share only the channels the harness serialises).", design="4 C17"),
 "C05": e1("E2 exploration of one real node over two heights with the twin (differential) oracles evaluated in every state reached by a Reset or ledger skip, plus closed-world 3-height runs; monitors for single decision, quiescence until Reset (whole-struct fingerprint), clean re-initialisation and cache hygiene. The differential oracle needs no hand-written expected value: the same node is compared with itself under a permuted history and with a freshly started node.", "4 C05"),
 "C09": e1("Fault enumeration in timed mode: every silent validator / silent primary set, every cut set of N=4 at every instant of the default schedule for three durations, every restart instant, then <=k delivery deviations in the synchronous period; bounded-liveness oracle counted in timer expiries; a stuck terminal state is reported with its heights and views.", "4 C09"),
 "C11": e1("In every state reached by the E2 exploration (three roles, anti-MEV off/on/switching, changing validator sets) every inadmissible input of the nine classes named in the property is applied to the real node and the whole-struct fingerprint, timer calls and broadcasts are compared before/after; every API call of every engine runs under recover (panic watch).", "4 C11"),
 "C12": e1("E2 exploration of a backup with every non-empty subset of a 3-transaction proposal missing, verification accepting or rejecting, a cached next-view proposal with its own missing set, and transactions reaching the pool before or together with the notification; the reference model 'requested minus supplied' decides when an answer is due.", "4 C12"),
 "C14": dict(level="model_checking", engine="E4", technique="explicit-state exploration (deviation-bounded E1 timed paths and E2 breadth-first states) with every explored path re-executed under five shifted virtual epochs and compared observation by observation (twin runs)", text="Clock-shift invariance is a relational property; each explored path is replayed by choice index on fresh instances under epochs from -30y to +200y around the wall clock and the per-node sequences of timer arguments, payload summaries and accepted blocks must agree with timestamps shifted by exactly the offset; nondeterminism between two identical runs is reported as wall-clock dependence.", note="Trusted: virtual timer, observation normalisation (timestamps relative to the epoch). " + E1N, design="4 C14"),
 "C06": dict(level="exploration", engine="E3", technique="exhaustive enumeration of the finite argument domain on the real Context (small-scope model checking of a pure function)", text="F, M, GetPrimaryIndex are pure functions of (N, height, view); the whole domain N=1..65535 x 256 views x boundary heights is enumerated (thorough) and compared with independent big-integer arithmetic, so the claim is exhaustive for the stated domain rather than sampled.", note="Trusted: the independent arithmetic in the checker; for N above the Start threshold the Context is populated through exported fields (the functions read nothing else).", design="4 C06"),
 "C15": dict(level="exploration", engine="E3", technique="exhaustive enumeration of a finite input grid, each point one real Start/OnReceive/Reset/OnTimeout drive of the implementation", text="The full cross product of increments, previous timestamps, clock readings, pool lists, heights, views, N, anti-MEV and dynamic-block-time settings is driven through the real primary code path and every broadcast proposal is compared with the constructor arguments, the Context and the primary's own block.", note="Trusted: harness application (pool, virtual clock); reading of 'whenever that is larger' documented in evidence assumptions.", design="4 C15"),
 "C19": dict(level="exploration", engine="E6", technique="small-scope exhaustive enumeration (all payloads/blocks over tiny field domains, all pairs, all single-byte corruptions, all byte strings to a length) on the real reference codec/crypto/merkle code", text="Hash binding, codec round trip, decoder robustness, signature and Merkle properties are universally quantified over inputs; within the small scope every input is enumerated and compared pairwise / against the original, so nothing is sampled.", note="Trusted: Go gob/ecdsa; content keys built by the checker; one process (gob type ids). Known finding D8 listed in known_findings.json.", design="4 C19"),
 "C20": dict(level="model_checking", engine="E7", technique="TLC explicit-state model checking (complete BFS) of each shipped TLA+ spec, constants and fault sets enumerated, ASSUME-admitted cells only", text="The property is about the TLA+ models themselves; TLC enumerates every reachable state of each (spec, MaxView, RMFault, RMDead) cell read from the working tree and checks exactly the three named invariants. Quick = 7 small cells + ASSUME probes for all five specs; thorough = the whole 5x2x25 matrix with a per-cell cap (capped cells are reported with the completed depth).", note="Trusted: TLC 1.8.0; cfg generation from the shipped .launch files. traces_validated_against_impl=0 by design (models are not claimed to follow the Go code).", design="4 C20"),
 "C18": dict(level="exploration", engine="E5", technique="exhaustive enumeration of all operation sequences up to a length bound against the real timer under a fake runtime clock (testing/synctest), step-by-step comparison with a reference model", text="All Reset/Extend/Sleep/Poll sequences up to length 7 (quick) / 8 (thorough) are executed on the real timer.Timer in synctest bubbles where every instant is exact; a 30-line reference model decides when a value must / must not be receivable.", note="Trusted: go1.26.8 testing/synctest fake clock; reference model in e5/timermc.", design="4 C18"),
}
todo_reason = "check not implemented yet in this revision (see DESIGN.md section 4 for the planned engine)"
checks=[]; na=[]
for p in props:
    i=p['id']
    if i in claimed:
        c=claimed[i]
        checks.append({
          "property_id": i,
          "quick_cmd": f"./check {i} --tier quick",
          "thorough_cmd": f"./check {i} --tier thorough",
          "evidence_file": f"/verif/evidence/{i}.json",
          "replay_cmd_template": "./bin/verifmc replay {path}",
          "engine": c['engine'],
          "level_claimed": {"category": c['level'], "text": c['text'], "design_ref": c['design']},
          "level_note": c['note'],
          "technique": c['technique'],
        })
    else:
        na.append({"property_id": i, "reason": todo_reason})
m = {
 "version": 1,
 "setup_cmd": "./setup.sh",
 "hooks": {"guard": "verif", "enable": "go build -tags verif (GOTOOLCHAIN=local go1.26.8, GOFLAGS=-mod=mod GOPROXY=off)",
           "baseline_off_cmd": "cd /repo && GOFLAGS=-mod=mod GOPROXY=off go test -vet=off -count=1 ./...",
           "source_commits": hook_commit, "add_only": True},
 "engines": [
   {"name":"E1","path":"/verif/mc","serves_properties":[c for c in claimed if claimed[c]['engine']=="E1"],"kind_free_text":E1},
   {"name":"E2","path":"/verif/mc/e2.go","serves_properties":["C02","C03","C04","C05","C07","C10","C11","C12","C13","C14"],"kind_free_text":"open-environment breadth-first explorer: one real node against an unconstrained finite alphabet"},
   {"name":"E4","path":"/verif/mc/checks_timed.go","serves_properties":["C14"],"kind_free_text":"twin-run (epoch shift) comparison over explored paths"},
   {"name":"E3","path":"/verif/mc/checks_e3.go","serves_properties":[c for c in claimed if claimed[c]['engine']=="E3"],"kind_free_text":"finite-domain enumerators driving the real library"},
   {"name":"E6","path":"/verif/e5/codecmc","serves_properties":["C19"],"kind_free_text":"small-scope codec/crypto/merkle enumerator (Go test binary, one process)"},
   {"name":"E7","path":"/verif/e7/tlc_matrix.py","serves_properties":["C20"],"kind_free_text":"TLC 1.8.0 matrix driver"},
   {"name":"E5","path":"/verif/e5","serves_properties":[c for c in claimed if claimed[c]['engine']=="E5"],"kind_free_text":"go1.26.8 testing/synctest drivers (fake runtime clock) for the real timer and the real simulation"},
 ],
 "checks": checks,
 "notes": "All checks rebuild /verif/bin/verifmc from /repo's working tree on every invocation (./build.sh). Known findings: /verif/known_findings.json.",
 "not_applicable": na,
}
json.dump(m, open('/verif/MANIFEST.json','w'), indent=1)
print("checks:", len(checks), "not_applicable:", len(na))
