#!/usr/bin/env python3
# Generates MANIFEST.json from the table below (kept in one place so it stays valid).
import json, subprocess
props = [json.loads(l) for l in open('/verif/properties.jsonl')]
hook_commit = subprocess.run(['git','-C','/repo','log','--format=%H','--grep=^verif:'],capture_output=True,text=True).stdout.split()

E1 = "E1 closed-world explicit-state explorer over real dbft.DBFT instances (hand-written, deviation-bounded DFS with state caching)"
claimed = {
 "C01": dict(level="model_checking", engine="E1",
   technique="explicit-state model checking of the real implementation: deviation-bounded (k) exhaustive exploration of delivery/timer/Byzantine schedules with state deduplication",
   text="Every execution with <=k deviations from the default schedule, around each base scenario (fault-free, silent primary, one Byzantine member at every position, amnesia restart, N=1..7, anti-MEV off/on/switch), is explored on real library instances and agreement is evaluated in every state. Bounded exhaustive coverage is the right level: agreement is a safety property over all schedules and fault sequences, which no sampled test can settle.",
   note="Trusted: harness payload/block/signature types (unforgeable by construction), 64-bit content hashes, reflective state fingerprint; bounds N<=7, views<=2-3, heights<=2, k<=2 (quick) / 3 (thorough).",
   design="4 C01"),
}
todo_reason = "check not implemented yet in this revision (see DESIGN.md section 4 for the planned engine)"
checks=[]; na=[]
for p in props:
    i=p['id']
    if i in claimed:
        c=claimed[i]
        checks.append({
          "property_id": i,
          "quick_cmd": f"./check {i} --tier quick",
          "thorough_cmd": f"./check {i} --tier thorough",
          "evidence_file": f"/verif/evidence/{i}.json",
          "replay_cmd_template": "./bin/verifmc replay {path}",
          "engine": c['engine'],
          "level_claimed": {"category": c['level'], "text": c['text'], "design_ref": c['design']},
          "level_note": c['note'],
          "technique": c['technique'],
        })
    else:
        na.append({"property_id": i, "reason": todo_reason})
m = {
 "version": 1,
 "setup_cmd": "./setup.sh",
 "hooks": {"guard": "verif", "enable": "go build -tags verif (GOTOOLCHAIN=local go1.26.8, GOFLAGS=-mod=mod GOPROXY=off)",
           "baseline_off_cmd": "cd /repo && GOFLAGS=-mod=mod GOPROXY=off go test -vet=off -count=1 ./...",
           "source_commits": hook_commit, "add_only": True},
 "engines": [
   {"name":"E1","path":"/verif/mc","serves_properties":[c for c in claimed if claimed[c]['engine']=="E1"],"kind_free_text":E1},
 ],
 "checks": checks,
 "notes": "All checks rebuild /verif/bin/verifmc from /repo's working tree on every invocation (./build.sh). Known findings: /verif/known_findings.json.",
 "not_applicable": na,
}
json.dump(m, open('/verif/MANIFEST.json','w'), indent=1)
print("checks:", len(checks), "not_applicable:", len(na))
