module github.com/nspcc-dev/dbft/verife5

go 1.26

require github.com/nspcc-dev/dbft v0.0.0

replace github.com/nspcc-dev/dbft => /repo
