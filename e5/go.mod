module github.com/nspcc-dev/dbft/verife5

go 1.26

require github.com/nspcc-dev/dbft v0.0.0

require (
	go.uber.org/multierr v1.10.0 // indirect
	go.uber.org/zap v1.27.0 // indirect
)

replace github.com/nspcc-dev/dbft => /repo
