package timermc

// C18: exhaustive enumeration of Reset/Extend/Sleep/Poll sequences against the
// real timer.Timer inside testing/synctest bubbles (fake runtime clock, so every
// instant is exact), compared step by step with a small reference model.

import (
	"encoding/json"
	"fmt"
	"os"
	"strconv"
	"sync"
	"sync/atomic"
	"testing"
	"testing/synctest"
	"time"

	"github.com/nspcc-dev/dbft/timer"
)

const ms = time.Millisecond

type op struct {
	kind string // reset | extend | sleep | poll
	d    time.Duration
}

var alphabet = []op{
	{"reset", 0}, {"reset", 10 * ms}, {"reset", 50 * ms},
	{"extend", 10 * ms}, {"extend", 50 * ms},
	{"sleep", 5 * ms}, {"sleep", 10 * ms}, {"sleep", 60 * ms},
	{"poll", 0},
}

func (o op) String() string {
	if o.kind == "poll" {
		return "Poll"
	}
	return fmt.Sprintf("%s(%v)", o.kind, o.d)
}

// model is the reference: latest reset instant, total duration, consumed flag.
type model struct {
	armed    bool
	s        time.Time
	d        time.Duration
	h        uint32
	v        byte
	consumed bool
}

func (m *model) deadline() time.Time { return m.s.Add(m.d) }

type failure struct {
	Key string   `json:"key"`
	Msg string   `json:"msg"`
	Seq []string `json:"sequence"`
}

// runSeq executes one sequence in the current bubble; returns "" or a failure description.
func runSeq(seq []int) (key, msg string) {
	t := timer.New()
	var m model
	h := uint32(0)
	poll := func(stage string) (string, string) {
		synctest.Wait()
		now := time.Now()
		var got *time.Time
		select {
		case x := <-t.C():
			got = &x
		default:
		}
		due := m.armed && !m.consumed && !now.Before(m.deadline())
		switch {
		case got != nil && !m.armed:
			return "C18/expiry-without-reset", stage + ": value received before any Reset"
		case got != nil && now.Before(m.deadline()):
			return "C18/early-expiry", fmt.Sprintf("%s: expiry received %v before the deadline (reset+duration+extensions)", stage, m.deadline().Sub(now))
		case got != nil && m.consumed:
			return "C18/double-expiry", stage + ": second expiry for one arming"
		case got != nil && got.Before(m.s):
			return "C18/stale-expiry", fmt.Sprintf("%s: delivered expiry was armed %v before the latest Reset", stage, m.s.Sub(*got))
		case got == nil && due:
			return "C18/missing-expiry", fmt.Sprintf("%s: deadline passed %v ago, nothing receivable", stage, now.Sub(m.deadline()))
		}
		if got != nil {
			m.consumed = true
		}
		return "", ""
	}
	for i, oi := range seq {
		o := alphabet[oi]
		switch o.kind {
		case "reset":
			h++
			v := byte(h % 3)
			t.Reset(h, v, o.d)
			m = model{armed: true, s: time.Now(), d: o.d, h: h, v: v}
		case "extend":
			t.Extend(o.d)
			if m.armed {
				before := m.deadline()
				m.d += o.d
				// the deadline moved; if it is in the future again a consumed expiry is re-armed
				if m.consumed && m.deadline().After(time.Now()) && m.deadline().After(before) {
					m.consumed = false
				}
			}
		case "sleep":
			time.Sleep(o.d)
		case "poll":
			if k, s := poll(fmt.Sprintf("step %d", i)); k != "" {
				return k, s
			}
		}
		if m.armed && (t.Height() != m.h || t.View() != m.v) {
			return "C18/wrong-epoch-reported", fmt.Sprintf("step %d: Height/View = %d/%d, latest Reset was %d/%d", i, t.Height(), t.View(), m.h, m.v)
		}
	}
	// drain phase: wait past every possible deadline, exactly one expiry (unless already consumed), then none
	if m.armed {
		// exact-deadline probe: one tick before the deadline nothing, at the deadline the value
		if dl := m.deadline(); dl.After(time.Now()) && !m.consumed {
			time.Sleep(dl.Sub(time.Now()) - 1)
			if k, s := poll("drain (1ns before deadline)"); k != "" {
				return k, s
			}
			time.Sleep(1)
			if k, s := poll("drain (at deadline)"); k != "" {
				return k, s
			}
		}
		time.Sleep(500 * ms)
		if k, s := poll("drain"); k != "" {
			return k, s
		}
		time.Sleep(500 * ms)
		if k, s := poll("drain 2"); k != "" {
			return k, s
		}
	}
	return "", ""
}

func TestC18(t *testing.T) {
	maxLen, _ := strconv.Atoi(os.Getenv("C18_MAXLEN"))
	if maxLen == 0 {
		maxLen = 5
	}
	out := os.Getenv("C18_OUT")
	var total, nontrivial atomic.Int64
	var mu sync.Mutex
	fails := map[string]failure{}
	var samples [][]string
	A := len(alphabet)
	// shard by the first op (and second) to use all cores
	var wg sync.WaitGroup
	sem := make(chan struct{}, 16)
	runOne := func(seq []int) {
		total.Add(1)
		resets, reads := 0, 0
		for _, x := range seq {
			if alphabet[x].kind == "reset" {
				resets++
			}
			if alphabet[x].kind == "poll" || alphabet[x].kind == "sleep" {
				reads++
			}
		}
		if resets > 0 && reads > 0 {
			nontrivial.Add(1)
		}
		var k, s string
		synctest.Test(t, func(t *testing.T) { k, s = runSeq(seq) })
		if k != "" {
			mu.Lock()
			if _, ok := fails[k]; !ok {
				f := failure{Key: k, Msg: s}
				for _, x := range seq {
					f.Seq = append(f.Seq, alphabet[x].String())
				}
				fails[k] = f
			}
			mu.Unlock()
		}
	}
	var rec func(seq []int, l int)
	rec = func(seq []int, l int) {
		if len(seq) == l {
			runOne(seq)
			return
		}
		for i := 0; i < A; i++ {
			rec(append(seq, i), l)
		}
	}
	for l := 1; l <= maxLen; l++ {
		if l < 3 {
			rec(nil, l)
			continue
		}
		for a := 0; a < A; a++ {
			for b := 0; b < A; b++ {
				wg.Add(1)
				sem <- struct{}{}
				go func(a, b, l int) {
					defer wg.Done()
					defer func() { <-sem }()
					rec([]int{a, b}, l)
				}(a, b, l)
			}
		}
		wg.Wait()
	}
	for _, s := range [][]int{{1, 6, 8}, {2, 3, 7, 8, 0, 8}, {1, 7, 3, 8, 4, 8}} {
		var ss []string
		for _, x := range s {
			ss = append(ss, alphabet[x].String())
		}
		samples = append(samples, ss)
	}
	res := map[string]any{"sequences": total.Load(), "nontrivial": nontrivial.Load(), "max_len": maxLen, "alphabet": fmt.Sprint(alphabet), "samples": samples}
	var fl []failure
	for _, f := range fails {
		fl = append(fl, f)
	}
	res["failures"] = fl
	if out != "" {
		b, _ := json.MarshalIndent(res, "", " ")
		os.WriteFile(out, b, 0o644)
	}
	for _, f := range fl {
		t.Errorf("%s: %s: %v", f.Key, f.Msg, f.Seq)
	}
	t.Logf("sequences=%d", total.Load())
}

// TestC18RealClock: one-sided "never early" smoke run against the real clock (cannot be falsified by scheduling delay).
func TestC18RealClock(t *testing.T) {
	tm := timer.New()
	start := time.Now()
	tm.Reset(1, 0, 20*ms)
	tm.Extend(15 * ms)
	<-tm.C()
	if el := time.Since(start); el < 35*ms {
		t.Fatalf("expiry after %v, before reset+duration+extension = 35ms", el)
	}
	tm.Reset(2, 1, 0)
	select {
	case <-tm.C():
	case <-time.After(5 * time.Second):
		t.Fatal("zero-duration reset did not fire")
	}
	if tm.Height() != 2 || tm.View() != 1 {
		t.Fatal("wrong epoch")
	}
}
