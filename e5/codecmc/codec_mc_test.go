package codecmc

// C19 (E6): small-scope exhaustive enumeration over the reference payload /
// block / crypto / merkle code. Everything runs in one process (gob type ids
// depend on first-use order inside a process).

import (
	"crypto/sha256"
	"bytes"
	"crypto/rand"
	"encoding/binary"
	"encoding/gob"
	"encoding/json"
	"fmt"
	"os"
	"runtime/debug"
	"sort"
	"strings"
	"sync"
	"testing"

	"github.com/nspcc-dev/dbft"
	"github.com/nspcc-dev/dbft/internal/consensus"
	"github.com/nspcc-dev/dbft/internal/crypto"
	"github.com/nspcc-dev/dbft/internal/merkle"
)

type U = crypto.Uint256
type CP = dbft.ConsensusPayload[U]

type failure struct {
	Key string `json:"key"`
	Msg string `json:"msg"`
}

type rec struct {
	fails  map[string]failure
	evals  int64
	nontrv int64
}

func (r *rec) fail(key, msg string) {
	if _, ok := r.fails[key]; !ok {
		if len(msg) > 2500 {
			msg = msg[:2500]
		}
		r.fails[key] = failure{key, msg}
	}
}

func u256(b byte) U {
	var u U
	for i := range u {
		u[i] = b + byte(i)
	}
	return u
}

const sec = uint64(1_000_000_000)

var (
	views   = []byte{0, 1, 255}
	heights = []uint32{0, 1, 1<<32 - 1}
	idxs    = []uint16{0, 1, 65535}
	tss     = []uint64{0, 1 * sec, (1<<32 - 1) * sec}
	nonces  = []uint64{0, 1, 1<<64 - 1}
	hpool   = []U{u256(1), u256(2), u256(3)}
)

// orderedSelections returns every duplicate-free ordered list of <=k elements of pool.
func orderedSelections(pool []U, k int) [][]U {
	out := [][]U{{}}
	var rc func(cur []U, used uint)
	rc = func(cur []U, used uint) {
		if len(cur) > 0 {
			out = append(out, append([]U(nil), cur...))
		}
		if len(cur) == k {
			return
		}
		for i, p := range pool {
			if used&(1<<i) == 0 {
				rc(append(cur, p), used|1<<i)
			}
		}
	}
	rc(nil, 0)
	return out
}

type spec struct {
	kind   string
	key    string // content key (all construction parameters)
	typ    dbft.MessageType
	build  func() any
	decode bool // accepted by the decoder
}

func sig64(b byte) []byte {
	s := make([]byte, 64)
	for i := range s {
		s[i] = b ^ byte(i*7)
	}
	return s
}

func bodySpecs() []spec {
	var out []spec
	for _, ts := range tss {
		ts := ts
		out = append(out, spec{"ChangeView", fmt.Sprintf("cv ts=%d", ts), dbft.ChangeViewType, nil, true})
		out[len(out)-1].build = nil // filled per view (newViewNumber is derived from the view)
		out = append(out, spec{"RecoveryRequest", fmt.Sprintf("rr ts=%d", ts), dbft.RecoveryRequestType, func() any { return consensus.NewRecoveryRequest(ts) }, true})
		for _, n := range nonces {
			n := n
			for _, txs := range orderedSelections(hpool, 3) {
				txs := txs
				out = append(out, spec{"PrepareRequest", fmt.Sprintf("preq ts=%d nonce=%d txs=%x", ts, n, txs), dbft.PrepareRequestType,
					func() any { return consensus.NewPrepareRequest(ts, n, append([]U(nil), txs...)) }, true})
			}
		}
	}
	for _, h := range hpool {
		h := h
		out = append(out, spec{"PrepareResponse", fmt.Sprintf("presp %x", h), dbft.PrepareResponseType, func() any { return consensus.NewPrepareResponse(h) }, true})
	}
	for _, b := range []byte{0, 1, 0xff} {
		b := b
		out = append(out, spec{"Commit", fmt.Sprintf("commit %x", b), dbft.CommitType, func() any { return consensus.NewCommit(sig64(b)) }, true})
		out = append(out, spec{"PreCommit", fmt.Sprintf("precommit %x", b), dbft.PreCommitType, func() any { return consensus.NewPreCommit([]byte{b, 0, 1, b}) }, false})
	}
	return out
}

func mk(s spec, h uint32, idx uint16, v byte) CP {
	var body any
	if s.kind == "ChangeView" {
		var ts uint64
		fmt.Sscanf(s.key, "cv ts=%d", &ts)
		body = consensus.NewChangeView(v+1, dbft.CVTimeout, ts)
	} else {
		body = s.build()
	}
	return consensus.NewConsensusPayload(s.typ, h, idx, v, body)
}

// recoveryPool is the 6-payload pool recovery messages are built from.
func recoveryPool(h uint32, v byte) []CP {
	preq := consensus.NewConsensusPayload(dbft.PrepareRequestType, h, 1, v, consensus.NewPrepareRequest(5*sec, 7, []U{hpool[0], hpool[1]}))
	return []CP{
		preq,
		consensus.NewConsensusPayload(dbft.PrepareResponseType, h, 2, v, consensus.NewPrepareResponse(preq.Hash())),
		consensus.NewConsensusPayload(dbft.PrepareResponseType, h, 3, v, consensus.NewPrepareResponse(preq.Hash())),
		consensus.NewConsensusPayload(dbft.ChangeViewType, h, 0, v, consensus.NewChangeView(v+1, dbft.CVTimeout, 3*sec)),
		consensus.NewConsensusPayload(dbft.CommitType, h, 2, v, consensus.NewCommit(sig64(9))),
		consensus.NewConsensusPayload(dbft.PreCommitType, h, 3, v, consensus.NewPreCommit([]byte{1, 2, 3, 4})),
	}
}

// recoveryView renders what a receiver extracts from a recovery payload.
func recoveryView(p CP) string {
	m := p.GetRecoveryMessage()
	var parts []string
	add := func(tag string, ps []CP) {
		var hs []string
		for _, q := range ps {
			hs = append(hs, fmt.Sprintf("%s/%d/%d/%d", q.Hash(), q.ValidatorIndex(), q.ViewNumber(), q.Height()))
		}
		sort.Strings(hs)
		parts = append(parts, fmt.Sprintf("%s=%v", tag, hs))
	}
	if r := m.GetPrepareRequest(p, nil, 1); r != nil {
		parts = append(parts, "req="+r.Hash().String())
	} else {
		parts = append(parts, "req=nil")
	}
	add("resp", m.GetPrepareResponses(p, nil))
	add("cv", m.GetChangeViews(p, nil))
	add("prec", m.GetPreCommits(p, nil))
	add("com", m.GetCommits(p, nil))
	if ph := m.PreparationHash(); ph != nil {
		parts = append(parts, "ph="+ph.String())
	} else {
		parts = append(parts, "ph=nil")
	}
	return fmt.Sprint(parts)
}

func observable(p CP) string {
	s := fmt.Sprintf("t=%d h=%d v=%d i=%d ", p.Type(), p.Height(), p.ViewNumber(), p.ValidatorIndex())
	switch p.Type() {
	case dbft.ChangeViewType:
		s += fmt.Sprintf("nv=%d", p.GetChangeView().NewViewNumber())
	case dbft.PrepareRequestType:
		r := p.GetPrepareRequest()
		s += fmt.Sprintf("ts=%d n=%d tx=%x", r.Timestamp(), r.Nonce(), r.TransactionHashes())
	case dbft.PrepareResponseType:
		s += fmt.Sprintf("ph=%x", p.GetPrepareResponse().PreparationHash())
	case dbft.CommitType:
		s += fmt.Sprintf("sig=%x", p.GetCommit().Signature())
	case dbft.PreCommitType:
		s += fmt.Sprintf("data=%x", p.GetPreCommit().Data())
	case dbft.RecoveryRequestType:
		s += fmt.Sprintf("ts=%d", p.GetRecoveryRequest().Timestamp())
	case dbft.RecoveryMessageType:
		s += recoveryView(p)
	}
	return s
}

func decodePayload(data []byte) (p *consensus.Payload, err error, panicked any) {
	stage := "decode"
	defer func() {
		if r := recover(); r != nil {
			st := string(debug.Stack())
			if i := strings.Index(st, "panic("); i >= 0 {
				st = st[i:]
			}
			if len(st) > 700 {
				st = st[:700]
			}
			panicked = fmt.Sprintf("[%s] %v @ %s", stage, r, st)
		}
	}()
	p = new(consensus.Payload)
	err = p.UnmarshalUnsigned(data)
	stage = "use of the accepted value"
	if err == nil {
		// a value the decoder accepted must be usable
		_ = p.Hash()
		_ = observable(p)
		_ = p.MarshalUnsigned()
	}
	return
}

func TestC19(t *testing.T) {
	thorough := os.Getenv("C19_TIER") == "thorough"
	r := &rec{fails: map[string]failure{}}
	var samples []string

	// ---------------- 1. payload hashes bind content; 2. codec round trip
	byHash := map[U]string{}
	byKey := map[string]U{}
	var encodings [][]byte
	specs := bodySpecs()
	npay := 0
	for _, h := range heights {
		for _, v := range views {
			for _, idx := range idxs {
				var all []struct {
					key string
					p   func() CP
					dec bool
					knd string
				}
				for _, s := range specs {
					s := s
					all = append(all, struct {
						key string
						p   func() CP
						dec bool
						knd string
					}{fmt.Sprintf("%s | h=%d v=%d i=%d", s.key, h, v, idx), func() CP { return mk(s, h, idx, v) }, s.decode, s.kind})
				}
				// recovery messages from every subset of the 6-payload pool
				for mask := 0; mask < 64; mask++ {
					mask := mask
					all = append(all, struct {
						key string
						p   func() CP
						dec bool
						knd string
					}{fmt.Sprintf("recmsg subset=%06b | h=%d v=%d i=%d", mask, h, v, idx), func() CP {
						rm := consensus.NewRecoveryMessage(nil)
						for i, q := range recoveryPool(h, v) {
							if mask&(1<<i) != 0 {
								rm.AddPayload(q)
							}
						}
						return consensus.NewConsensusPayload(dbft.RecoveryMessageType, h, idx, v, rm)
					}, mask&(1<<5) == 0 || true, "RecoveryMessage"})
				}
				for _, e := range all {
					npay++
					p1, p2 := e.p(), e.p()
					h1 := p1.Hash()
					r.evals++
					if h1 != p2.Hash() {
						r.fail("C19/hash/not-content-only/"+e.knd, "two payloads built from equal content have different hashes: "+e.key)
					}
					if old, ok := byHash[h1]; ok && old != e.key {
						r.fail("C19/hash/collision/"+e.knd, fmt.Sprintf("different content, equal hash: %q vs %q", old, e.key))
					}
					byHash[h1] = e.key
					byKey[e.key] = h1
					// hash must follow a later SetValidatorIndex
					other := idxs[(indexOf(idxs, idx)+1)%len(idxs)]
					p1.SetValidatorIndex(other)
					p3 := e.p()
					p3.SetValidatorIndex(other)
					r.evals++
					if p1.Hash() != p3.Hash() || p1.Hash() == h1 {
						r.fail("C19/hash/stale-after-set-validator-index/"+e.knd, "hash does not follow SetValidatorIndex: "+e.key)
					}
					p1.SetValidatorIndex(idx)
					if !e.dec {
						continue
					}
					// round trip
					data := p1.(*consensus.Payload).MarshalUnsigned()
					q, err, pan := decodePayload(data)
					r.evals++
					switch {
					case pan != nil:
						r.fail("C19/roundtrip/panic/"+e.knd, fmt.Sprintf("decoder panicked on a valid encoding of %s: %v", e.key, pan))
					case err != nil:
						r.fail("C19/roundtrip/rejects-own-encoding/"+e.knd, fmt.Sprintf("%s: %v", e.key, err))
					default:
						if e.knd == "RecoveryMessage" {
							a, b := observable(p1), observable(q)
							if a != b {
								key := "C19/roundtrip/recovery-message-differs"
								// D8: with an embedded PrepareRequest the preparation hash is not carried on the wire
								if bytes.Contains([]byte(e.key), []byte("subset=")) {
									var mask int
									fmt.Sscanf(e.key, "recmsg subset=%b", &mask)
									if mask&1 != 0 && recoveryDiffOnlyPrepHash(p1, q) {
										key = "C19/roundtrip/recovery-preparation-hash-with-request"
									}
								}
								r.fail(key, fmt.Sprintf("%s\n original: %s\n decoded:  %s", e.key, a, b))
							}
						} else {
							if a, b := observable(p1), observable(q); a != b {
								r.fail("C19/roundtrip/field-lost/"+e.knd, fmt.Sprintf("%s\n original: %s\n decoded:  %s", e.key, a, b))
							}
							if q.Hash() != h1 {
								r.fail("C19/roundtrip/hash-changed/"+e.knd, e.key)
							}
						}
						if len(encodings) < 400 && (npay%37 == 0 || len(encodings) < 30) {
							encodings = append(encodings, data)
						}
					}
				}
			}
		}
	}
	r.nontrv += int64(len(byKey))
	samples = append(samples, fmt.Sprintf("payloads enumerated: %d distinct contents (e.g. %q)", len(byKey), firstKey(byKey)))

	// ---------------- 3. proposal rebuilt from a recovery message keeps the original hash
	for _, h := range heights {
		for _, v := range views {
			pool := recoveryPool(h, v)
			rm := consensus.NewRecoveryMessage(nil)
			for _, q := range pool[:3] {
				rm.AddPayload(q)
			}
			rp := consensus.NewConsensusPayload(dbft.RecoveryMessageType, h, 2, v, rm)
			req := rm.GetPrepareRequest(rp, nil, 1)
			r.evals++
			if req == nil || req.Hash() != pool[0].Hash() {
				r.fail("C19/recovery/rebuilt-proposal-hash", fmt.Sprintf("h=%d v=%d: rebuilt PrepareRequest hash differs from the original", h, v))
			}
			resps := rm.GetPrepareResponses(rp, nil)
			if len(resps) != 2 {
				r.fail("C19/recovery/rebuilt-responses-missing", fmt.Sprintf("h=%d v=%d: %d responses rebuilt, 2 added", h, v, len(resps)))
			}
			for i, q := range resps {
				r.evals++
				if q.GetPrepareResponse().PreparationHash() != pool[0].Hash() || q.Hash() != pool[1+i].Hash() {
					r.fail("C19/recovery/rebuilt-response-mismatch", fmt.Sprintf("h=%d v=%d: rebuilt response does not match the proposal / the original response", h, v))
				}
			}
		}
	}

	// ---------------- 3b. the same on the receiving side: after a wire round trip whatever is rebuilt must be consistent
	// (a rebuilt response names the rebuilt proposal; a preparation hash, if present, is the proposal's hash), for
	// every primary index and every subset of {proposal, response, response}
	for _, h := range heights {
		for _, v := range views {
			pool := recoveryPool(h, v)
			for mask := 1; mask < 8; mask++ {
				for _, prim := range []uint16{0, 1, 3} {
					rm := consensus.NewRecoveryMessage(nil)
					orig := pool[0].ValidatorIndex()
					pool[0].SetValidatorIndex(prim)
					for i, q := range pool[:3] {
						if mask&(1<<i) != 0 {
							rm.AddPayload(q)
						}
					}
					rp := consensus.NewConsensusPayload(dbft.RecoveryMessageType, h, 2, v, rm)
					want := pool[0].Hash()
					pool[0].SetValidatorIndex(orig)
					for _, wire := range []bool{false, true} {
						var cp CP = rp
						if wire {
							q, err, pan := decodePayload(rp.(*consensus.Payload).MarshalUnsigned())
							if err != nil || pan != nil {
								continue // reported by section 2
							}
							cp = q
						}
						m := cp.GetRecoveryMessage()
						r.evals++
						var reqHash *U
						if mask&1 != 0 {
							req := m.GetPrepareRequest(cp, nil, prim)
							if req == nil || req.Hash() != want {
								r.fail("C19/recovery/rebuilt-proposal-hash", fmt.Sprintf("h=%d v=%d subset=%03b primary=%d wire=%v: rebuilt PrepareRequest hash differs from the original", h, v, mask, prim, wire))
								continue
							}
							hh := req.Hash()
							reqHash = &hh
						}
						if mask&1 != 0 {
							// the rebuilt proposal's hash is a function of its content: rebuilt for another primary index it
							// equals the hash of the original payload re-labelled with that index
							other := prim + 1
							pool[0].SetValidatorIndex(other)
							wantOther := pool[0].Hash()
							pool[0].SetValidatorIndex(orig)
							r.evals++
							if ro := m.GetPrepareRequest(cp, nil, other); ro == nil || ro.Hash() != wantOther {
								r.fail("C19/recovery/rebuilt-proposal-hash", fmt.Sprintf("h=%d v=%d subset=%03b wire=%v: proposal rebuilt for primary index %d does not hash like the same content carrying that index", h, v, mask, wire, other))
							} else {
								ro.SetValidatorIndex(prim)
								if ro.Hash() != want {
									r.fail("C19/hash/stale-after-set-validator-index/rebuilt-PrepareRequest", fmt.Sprintf("h=%d v=%d subset=%03b wire=%v", h, v, mask, wire))
								}
							}
						}
						if ph := m.PreparationHash(); ph != nil && reqHash != nil && *ph != *reqHash {
							r.fail("C19/recovery/preparation-hash-is-not-the-proposal-hash", fmt.Sprintf("h=%d v=%d subset=%03b primary=%d wire=%v", h, v, mask, prim, wire))
						}
						for _, q := range m.GetPrepareResponses(cp, nil) {
							r.evals++
							if reqHash != nil && q.GetPrepareResponse().PreparationHash() != *reqHash {
								r.fail("C19/recovery/rebuilt-response-names-other-hash", fmt.Sprintf("h=%d v=%d subset=%03b primary=%d wire=%v: a rebuilt PrepareResponse does not name the rebuilt proposal", h, v, mask, prim, wire))
							}
						}
					}
				}
			}
		}
	}

	// ---------------- 4. decoders fail cleanly on arbitrary bytes
	nbytes := 0
	// the decoders are fed from 16 goroutines (each gob decoder is independent)
	type inp struct {
		what string
		data []byte
	}
	work := make(chan inp, 4096)
	var wg sync.WaitGroup
	var fmu sync.Mutex
	for g := 0; g < 16; g++ {
		wg.Add(1)
		go func() {
			defer wg.Done()
			for in := range work {
				q, derr, pan := decodePayload(in.data)
				if pan != nil {
					fmu.Lock()
					r.fail("C19/decode/panic/payload", fmt.Sprintf("%v || %s of a valid encoding: % x", pan, in.what, in.data))
					fmu.Unlock()
				} else if derr == nil && q != nil {
					// whatever byte string the decoder accepts, the hash of the resulting payload is a function of its
					// content: it equals the hash of the payload decoded from its own canonical encoding
					func() {
						defer func() { _ = recover() }() // re-encoding problems are section 2's business
						q2, err2, pan2 := decodePayload(q.MarshalUnsigned())
						if err2 == nil && pan2 == nil && q2 != nil && q2.Hash() != q.Hash() && observable(q2) == observable(q) {
							fmu.Lock()
							r.fail("C19/hash/depends-on-wire-bytes", fmt.Sprintf("%s: the payload decoded from % x hashes differently from the same content decoded from its canonical encoding", in.what, in.data))
							fmu.Unlock()
						}
					}()
				}
				if pan := decodeBlock(in.data); pan != nil {
					fmu.Lock()
					r.fail("C19/decode/panic/block", fmt.Sprintf("%s: % x: %v", in.what, in.data, pan))
					fmu.Unlock()
				}
			}
		}()
	}
	try := func(what string, data []byte) {
		nbytes++
		r.evals++
		work <- inp{what, data}
	}
	try("empty", nil)
	for a := 0; a < 256; a++ {
		try("1 byte", []byte{byte(a)})
		for b := 0; b < 256; b++ {
			try("2 bytes", []byte{byte(a), byte(b)})
		}
	}
	if thorough {
		for a := 0; a < 256; a++ {
			for b := 0; b < 256; b++ {
				for c := 0; c < 256; c += 1 {
					try("3 bytes", []byte{byte(a), byte(b), byte(c)})
				}
			}
		}
	}
	blk := consensus.NewBlock(3*sec, 7, u256(9), 5, []U{hpool[0]})
	var bb bytes.Buffer
	_ = blk.(consensus.Serializable).EncodeBinary(gob.NewEncoder(&bb))
	encodings = append(encodings, bb.Bytes())
	for _, enc := range encodings {
		for i := range enc {
			try("truncation", enc[:i])
			subs := []byte{0x00, 0xff, enc[i] ^ 1, enc[i] ^ 0x80, enc[i] + 1}
			if thorough {
				subs = subs[:0]
				for x := 0; x < 256; x++ {
					subs = append(subs, byte(x))
				}
			}
			for _, s := range subs {
				if s == enc[i] {
					continue
				}
				m := append([]byte(nil), enc...)
				m[i] = s
				try("substitution", m)
			}
		}
		for _, x := range []byte{0, 1, 0xff} {
			try("extension", append(append([]byte(nil), enc...), x))
		}
	}
	close(work)
	wg.Wait()
	samples = append(samples, fmt.Sprintf("byte strings fed to the payload and block decoders: %d (all strings of length<=2%s, every truncation / single-byte substitution / one-byte extension of %d valid encodings)", nbytes, map[bool]string{true: " and <=3", false: ""}[thorough], len(encodings)))

	// ---------------- 5. blocks
	type bspec struct {
		idx   uint32
		prev  U
		ts    uint64
		nonce uint64
		txs   []U
	}
	bh := map[U]string{}
	nblocks := 0
	priv, pub := crypto.Generate(rand.Reader)
	_, pub2 := crypto.Generate(rand.Reader)
	txpool := []U{tx(1), tx(2), tx(3), tx(4)}
	for _, bi := range heights {
		for _, prev := range hpool {
			for _, ts := range tss {
				for _, n := range nonces {
					for _, txs := range orderedSelections(txpool, 4) {
						nblocks++
						key := fmt.Sprintf("idx=%d prev=%x ts=%d nonce=%d txs=%x", bi, prev[:2], ts, n, txs)
						mkb := func() dbft.Block[U] {
							b := consensus.NewBlock(ts, bi, prev, n, append([]U(nil), txs...))
							tt := make([]dbft.Transaction[U], len(txs))
							for i, h := range txs {
								x := consensus.Tx64(binary.LittleEndian.Uint64(h[:8]))
								tt[i] = &x
							}
							b.SetTransactions(tt)
							return b
						}
						b1, b2 := mkb(), mkb()
						h1 := b1.Hash()
						r.evals++
						if h1 != b2.Hash() {
							r.fail("C19/block/hash-not-content-only", key)
						}
						if (h1 == U{}) {
							r.fail("C19/block/complete-block-without-hash", "complete block has a zero hash: "+key)
						}
						if old, ok := bh[h1]; ok && old != key {
							r.fail("C19/block/hash-collision", fmt.Sprintf("different content, equal hash: %q vs %q", old, key))
						}
						bh[h1] = key
						if nblocks%9 == 0 || thorough {
							// signatures do not enter the hash and verify only under the signer's key for this block
							if err := b2.Sign(priv); err != nil {
								r.fail("C19/block/sign-error", err.Error())
								continue
							}
							r.evals += 3
							if b2.Hash() != h1 || mkbSignedHash(mkb, priv) != h1 {
								r.fail("C19/block/hash-depends-on-signature", key)
							}
							if b1.Verify(pub, b2.Signature()) != nil {
								r.fail("C19/block/valid-signature-rejected", key)
							}
							if b1.Verify(pub2, b2.Signature()) == nil {
								r.fail("C19/block/signature-verifies-under-other-key", key)
							}
						}
					}
				}
			}
		}
	}
	r.nontrv += int64(len(bh))
	// a signature for one block must not verify for a block differing in one field
	{
		base := consensus.NewBlock(3*sec, 7, hpool[0], 5, []U{txpool[0], txpool[1]})
		base.SetTransactions(nil)
		_ = base.Sign(priv)
		muts := []dbft.Block[U]{
			consensus.NewBlock(4*sec, 7, hpool[0], 5, []U{txpool[0], txpool[1]}),
			consensus.NewBlock(3*sec, 8, hpool[0], 5, []U{txpool[0], txpool[1]}),
			consensus.NewBlock(3*sec, 7, hpool[1], 5, []U{txpool[0], txpool[1]}),
			consensus.NewBlock(3*sec, 7, hpool[0], 6, []U{txpool[0], txpool[1]}),
			consensus.NewBlock(3*sec, 7, hpool[0], 5, []U{txpool[1], txpool[0]}),
			consensus.NewBlock(3*sec, 7, hpool[0], 5, []U{txpool[0]}),
		}
		for i, m := range muts {
			r.evals++
			if m.Verify(pub, base.Signature()) == nil {
				r.fail("C19/block/signature-survives-mutation", fmt.Sprintf("mutation %d", i))
			}
		}
	}
	samples = append(samples, fmt.Sprintf("blocks enumerated: %d distinct contents", len(bh)))

	// ---------------- 5b. anti-MEV blocks built from a pre-block and M pre-commit data items
	ah := map[U]string{}
	magic := func(x uint32) []byte { b := make([]byte, 4); binary.BigEndian.PutUint32(b, x); return b }
	for _, bi := range heights {
		for _, prev := range hpool[:2] {
			for _, ts := range tss {
				for _, n := range nonces[:2] {
					for _, txs := range orderedSelections(txpool[:3], 3) {
						for _, sum := range [][]uint32{{0, 0, 0}, {1, 0, 0}, {1, 1, 5}, {7, 0, 0}} {
							total := sum[0] + sum[1] + sum[2]
							key := fmt.Sprintf("amev idx=%d prev=%x ts=%d nonce=%d txs=%x magic-sum=%d", bi, prev[:2], ts, n, txs, total)
							mkb := func() dbft.Block[U] {
								pre := consensus.NewPreBlock(ts, bi, prev, n, append([]U(nil), txs...))
								tt := make([]dbft.Transaction[U], len(txs))
								for i, h := range txs {
									x := consensus.Tx64(binary.LittleEndian.Uint64(h[:8]))
									tt[i] = &x
								}
								pre.SetTransactions(tt)
								return consensus.NewAMEVBlock(pre, [][]byte{magic(sum[0]), magic(sum[1]), magic(sum[2])}, 3)
							}
							b1, b2 := mkb(), mkb()
							h1 := b1.Hash()
							r.evals++
							if h1 != b2.Hash() {
								r.fail("C19/amev-block/hash-not-content-only", key)
							}
							if (h1 == U{}) {
								r.fail("C19/amev-block/complete-block-without-hash", key)
							}
							if old, ok := ah[h1]; ok && old != key {
								r.fail("C19/amev-block/hash-collision", fmt.Sprintf("different content, equal hash: %q vs %q", old, key))
							}
							ah[h1] = key
							if _, clash := bh[h1]; clash {
								r.fail("C19/amev-block/hash-collides-with-plain-block", key)
							}
						}
					}
				}
			}
		}
	}
	{
		pre := consensus.NewPreBlock(3*sec, 7, hpool[0], 5, []U{txpool[0]})
		x := consensus.Tx64(1)
		pre.SetTransactions([]dbft.Transaction[U]{&x})
		b := consensus.NewAMEVBlock(pre, [][]byte{magic(1), magic(2), magic(3)}, 3)
		h0 := b.Hash()
		if err := b.Sign(priv); err != nil {
			r.fail("C19/amev-block/sign-error", err.Error())
		} else {
			r.evals += 3
			if b.Hash() != h0 {
				r.fail("C19/amev-block/hash-depends-on-signature", "")
			}
			if b.Verify(pub, b.Signature()) != nil {
				r.fail("C19/amev-block/valid-signature-rejected", "")
			}
			if b.Verify(pub2, b.Signature()) == nil {
				r.fail("C19/amev-block/signature-verifies-under-other-key", "")
			}
		}
	}
	r.nontrv += int64(len(ah))
	samples = append(samples, fmt.Sprintf("anti-MEV blocks enumerated: %d distinct contents", len(ah)))

	// ---------------- 6. ECDSA
	type kp struct {
		priv dbft.PrivateKey
		pub  dbft.PublicKey
	}
	var keys []kp
	for i := 0; i < 3; i++ {
		a, b := crypto.Generate(rand.Reader)
		keys = append(keys, kp{a, b})
	}
	msgs := [][]byte{[]byte("a"), []byte("block one"), bytes.Repeat([]byte{7}, 100)}
	// message lengths that coincide with digest sizes, and the digests of other messages (a signature is for the
	// message, whatever it looks like), plus the empty message
	for _, m := range [][]byte{[]byte("block one"), bytes.Repeat([]byte{7}, 100)} {
		d := sha256.Sum256(m)
		msgs = append(msgs, d[:])
		dd := sha256.Sum256(d[:])
		msgs = append(msgs, dd[:])
	}
	msgs = append(msgs, bytes.Repeat([]byte{9}, 32), bytes.Repeat([]byte{9}, 64), []byte{})
	type signer interface {
		Sign([]byte) ([]byte, error)
	}
	for i, k := range keys {
		for mi, m := range msgs {
			sg, err := k.priv.(signer).Sign(m)
			if err != nil {
				r.fail("C19/ecdsa/sign-error", err.Error())
				continue
			}
			for j, k2 := range keys {
				for mj, m2 := range msgs {
					r.evals++
					err := k2.pub.(*crypto.ECDSAPub).Verify(m2, sg)
					if (err == nil) != (i == j && mi == mj) {
						r.fail("C19/ecdsa/verify-wrong-verdict", fmt.Sprintf("signer %d msg %d, verifier %d msg %d: err=%v", i, mi, j, mj, err))
					}
				}
			}
			if i == 0 && mi == 1 {
				for bit := 0; bit < len(sg)*8; bit++ {
					f := append([]byte(nil), sg...)
					f[bit/8] ^= 1 << (bit % 8)
					r.evals++
					if k.pub.(*crypto.ECDSAPub).Verify(m, f) == nil {
						r.fail("C19/ecdsa/bit-flipped-signature-verifies", fmt.Sprintf("bit %d", bit))
					}
				}
			}
		}
	}

	// ---------------- 7. Merkle root changes with any leaf or order change (same length => injective)
	maxL := 6
	nlists := 0
	for l := 1; l <= maxL; l++ {
		roots := map[U]string{}
		n := 1
		for i := 0; i < l; i++ {
			n *= 3
		}
		for code := 0; code < n; code++ {
			var lst []U
			c := code
			for i := 0; i < l; i++ {
				lst = append(lst, hpool[c%3])
				c /= 3
			}
			nlists++
			r.evals++
			root := merkle.NewMerkleTree(lst...).Root().Hash
			key := fmt.Sprintf("%x", lst)
			if old, ok := roots[root]; ok && old != key {
				r.fail("C19/merkle/root-collision", fmt.Sprintf("length %d: lists differing in a leaf/order have equal roots", l))
			}
			roots[root] = key
		}
	}
	samples = append(samples, fmt.Sprintf("merkle hash lists: %d (all lists of length<=%d over 3 leaf values)", nlists, maxL))

	// ---------------- result
	out := map[string]any{"evaluations": r.evals, "nontrivial": r.nontrv, "samples": samples, "payloads": len(byKey), "blocks": len(bh), "byte_strings": nbytes}
	var fl []failure
	for _, f := range r.fails {
		fl = append(fl, f)
	}
	sort.Slice(fl, func(i, j int) bool { return fl[i].Key < fl[j].Key })
	out["failures"] = fl
	if p := os.Getenv("C19_OUT"); p != "" {
		b, _ := json.MarshalIndent(out, "", " ")
		os.WriteFile(p, b, 0o644)
	}
	for _, f := range fl {
		t.Logf("FAIL %s: %s", f.Key, f.Msg)
	}
	if len(fl) > 0 {
		t.Fail()
	}
}

func mkbSignedHash(mk func() dbft.Block[U], priv dbft.PrivateKey) U {
	b := mk()
	_ = b.Sign(priv)
	return b.Hash()
}

func tx(i uint64) U {
	var u U
	binary.LittleEndian.PutUint64(u[:], i)
	return u
}

func indexOf(xs []uint16, x uint16) int {
	for i, y := range xs {
		if y == x {
			return i
		}
	}
	return 0
}

func firstKey(m map[string]U) string {
	var ks []string
	for k := range m {
		ks = append(ks, k)
	}
	sort.Strings(ks)
	return ks[len(ks)/2]
}

func decodeBlock(data []byte) (panicked any) {
	defer func() {
		if r := recover(); r != nil {
			panicked = r
		}
	}()
	b := consensus.NewBlock(0, 0, U{}, 0, nil)
	_ = b.(consensus.Serializable).DecodeBinary(gob.NewDecoder(bytes.NewReader(data)))
	_ = b.Index()
	return nil
}

// recoveryDiffOnlyPrepHash reports whether original and decoded recovery payloads differ only in
// the preparation hash / the prepare responses derived from it.
func recoveryDiffOnlyPrepHash(a, b CP) bool {
	ma, mb := a.GetRecoveryMessage(), b.GetRecoveryMessage()
	eq := func(x, y []CP) bool {
		if len(x) != len(y) {
			return false
		}
		var hx, hy []string
		for i := range x {
			hx = append(hx, x[i].Hash().String())
			hy = append(hy, y[i].Hash().String())
		}
		sort.Strings(hx)
		sort.Strings(hy)
		return fmt.Sprint(hx) == fmt.Sprint(hy)
	}
	ra, rb := ma.GetPrepareRequest(a, nil, 1), mb.GetPrepareRequest(b, nil, 1)
	if (ra == nil) != (rb == nil) || (ra != nil && ra.Hash() != rb.Hash()) {
		return false
	}
	return eq(ma.GetChangeViews(a, nil), mb.GetChangeViews(b, nil)) && eq(ma.GetCommits(a, nil), mb.GetCommits(b, nil)) &&
		eq(ma.GetPreCommits(a, nil), mb.GetPreCommits(b, nil))
}
