package main

// A Node is one real dbft.DBFT[H] instance plus the harness application around
// it: ledger, pool, virtual timer, outbox, and the per-node monitor memory.

import (
	"errors"
	"fmt"
	"runtime/debug"
	"slices"
	"time"

	"github.com/nspcc-dev/dbft"
	"go.uber.org/zap"
)

type nodeKind int

const (
	kHonest    nodeKind = iota
	kSilent             // in the validator list, never sends or receives (no instance)
	kByz                // scripted Byzantine: no instance, menu payloads
	kAmnesia            // real instance that may be restarted with empty consensus state (counts as faulty)
	kWatchFlag          // real instance, in the list, WatchOnly() == true
	kOutside            // real instance, not in the validator list
)

func (k nodeKind) String() string {
	return [...]string{"honest", "silent", "byz", "amnesia", "watchflag", "outside"}[k]
}

// real reports whether a node of this kind has a library instance.
func (k nodeKind) real() bool { return k == kHonest || k == kAmnesia || k == kWatchFlag || k == kOutside }

// trusted reports whether safety monitors apply to the node.
func (k nodeKind) watch() bool   { return k == kWatchFlag || k == kOutside }
func (k nodeKind) trusted() bool { return k == kHonest || k == kWatchFlag || k == kOutside }

// VTimer is the injected virtual timer.
type VTimer struct {
	n        *Node
	h        uint32
	v        byte
	start    time.Time
	d        time.Duration
	armed    bool // Reset was called at least once
	consumed bool // expiry delivered and not re-armed since
	ops      int  // Reset+Extend calls (to detect "touches the timer")
	resets   int
}

func (t *VTimer) Now() time.Time { return t.n.w.now }
func (t *VTimer) Reset(h uint32, v byte, d time.Duration) {
	t.h, t.v, t.d, t.start = h, v, d, t.n.w.now
	t.armed, t.consumed = true, false
	t.ops++
	t.resets++
	t.n.onTimerReset(h, v, d)
}
func (t *VTimer) Extend(d time.Duration) {
	t.d += d
	t.ops++
	t.n.onTimerExtend(d)
}
func (t *VTimer) Height() uint32      { return t.h }
func (t *VTimer) View() byte          { return t.v }
func (t *VTimer) C() <-chan time.Time { return nil }
func (t *VTimer) deadline() time.Time { return t.start.Add(t.d) }

// mon is the per-node, per-height monitor memory. It is part of the state key.
type mon struct {
	height       uint32
	sentReq      map[byte]H // view -> hash of own PrepareRequest
	sentResp     map[byte]H
	sentCommit   H
	hasCommit    bool
	sentPreC     H
	hasPreC      bool
	locked       bool // commit or pre-commit broadcast
	lockView     byte
	maxSentView  byte
	preBlockOK   int             // successful ProcessPreBlock calls
	preBlockCall int
	blockOK      int // successful ProcessBlock calls
	blockCall    int // all ProcessBlock calls
	verifiedOK   map[H]bool // block/pre-block content hash -> VerifyBlock verdict given
	commitVer    map[H]bool // commit payload hash -> true if VerifyCommit ran while the header was constructible
	preCVer      map[H]bool
	requested    map[H]bool // C12: requested and not yet supplied for (reqView)
	reqView      byte
	reqActive    bool
	newBlockCalls int
	signCalls    int
	setDataCalls int
}

func newMon(h uint32) *mon {
	return &mon{height: h, sentReq: map[byte]H{}, sentResp: map[byte]H{},
		verifiedOK: map[H]bool{}, commitVer: map[H]bool{}, preCVer: map[H]bool{}, requested: map[H]bool{}}
}

// Node is one participant.
type Node struct {
	id   int
	kind nodeKind
	w    *World
	d    *dbft.DBFT[H]
	t    *VTimer

	// ledger
	height       uint32
	tip          H
	tipTS        uint64
	subActive    bool // a SubscribeForTxs call has not been answered with a notification yet (one-shot model)
	curWhat      string // API call in progress
	watchNow     bool // the operator switched this running validator to watch-only (E2 event "watch")
	earlierLife  bool // see Receive
	foreignEarly bool // an unrequested transaction was handed over while no request was outstanding (E2 foreign_tx)
	ledgerAhead  bool // the ledger got the block of the height under consensus from elsewhere; Reset not called yet
	pendingReset bool
	resetHeld    bool // a slow application: the pending Reset is postponed until nothing else is deliverable
	incarnation  int

	// pools
	known map[H]bool // transactions this node can serve through GetTx
	pool  []H        // verified pool, ordered

	outbox []*Payload
	inAPI  bool

	m *mon

	// counters for C13 and friends (monotone, whole run)
	broadcasts int
	signs      int
	setDatas   int
	subscribes int

	// per-API-call scratch
	callBroadcasts []*Payload
	curInput       *Payload

	cvSeen   map[uint32]map[uint16]byte // height -> validator -> highest NewViewNumber+1 handed to the node
	permMode int                        // replay order of cached payloads: 0 ascending, 1 descending, 2 rotated
	fpCache  uint64
	fpValid  bool
	crashed  bool // a library call panicked
}

func (n *Node) sc() *Scenario { return n.w.sc }

func (n *Node) validators() []dbft.PublicKey {
	ids := n.sc().validatorsAt(n.height + 1)
	r := make([]dbft.PublicKey, len(ids))
	for i, id := range ids {
		r[i] = pubKey{id}
	}
	return r
}

// build creates the library instance for the node.
func (n *Node) build() {
	sc := n.sc()
	n.t = &VTimer{n: n}
	opts := []func(*dbft.Config[H]){
		dbft.WithTimer[H](n.t),
		dbft.WithLogger[H](zap.NewNop()),
		dbft.WithTimePerBlock[H](func() time.Duration {
			if sc.TimeVar {
				// block times are chain state (e.g. a governance setting): they differ from height to height
				return sc.TimePerBlock + time.Duration(n.height%2)*time.Second
			}
			return sc.TimePerBlock
		}),
		dbft.WithTimestampIncrement[H](sc.TSIncrement),
		dbft.WithGetKeyPair[H](func(pubs []dbft.PublicKey) (int, dbft.PrivateKey, dbft.PublicKey) {
			for i, p := range pubs {
				if p.(pubKey).id == n.id {
					return i, privKey{n.id}, pubKey{n.id}
				}
			}
			return -1, nil, nil
		}),
		dbft.WithWatchOnly[H](func() bool { return n.kind == kWatchFlag || n.watchNow }),
		dbft.WithCurrentHeight[H](func() uint32 { return n.height }),
		dbft.WithCurrentBlockHash[H](func() H { return n.tip }),
		dbft.WithGetValidators[H](func(...dbft.Transaction[H]) []dbft.PublicKey { return n.validators() }),
		dbft.WithGetTx[H](func(h H) dbft.Transaction[H] {
			if n.known[h] {
				return Tx{h}
			}
			return nil
		}),
		dbft.WithGetVerified[H](func() []dbft.Transaction[H] {
			k := min(len(n.pool), sc.TxPerBlock)
			r := make([]dbft.Transaction[H], k)
			for i := 0; i < k; i++ {
				r[i] = Tx{n.pool[i]}
			}
			return r
		}),
		dbft.WithRequestTx[H](n.cbRequestTx),
		dbft.WithStopTxFlow[H](func() {}),
		dbft.WithVerifyBlock[H](n.cbVerifyBlock),
		dbft.WithBroadcast[H](n.cbBroadcast),
		dbft.WithProcessBlock[H](n.cbProcessBlock),
		dbft.WithNewBlockFromContext[H](n.cbNewBlock),
		dbft.WithNewConsensusPayload[H](func(c *dbft.Context[H], t dbft.MessageType, body any) dbft.ConsensusPayload[H] {
			return &Payload{typ: t, height: c.BlockIndex, view: c.ViewNumber, idx: uint16(max(c.MyIndex, 0)), body: body}
		}),
		dbft.WithNewPrepareRequest[H](func(ts, nonce uint64, txs []H) dbft.PrepareRequest[H] {
			n.w.hookNewPrepareRequest(n, ts, nonce, txs)
			return &prepReq{ts: ts, nonce: nonce, txs: slices.Clone(txs)}
		}),
		dbft.WithNewPrepareResponse[H](func(h H) dbft.PrepareResponse[H] { return &prepResp{h} }),
		dbft.WithNewChangeView[H](func(nv byte, r dbft.ChangeViewReason, ts uint64) dbft.ChangeView {
			return &changeView{newView: nv, reason: r, ts: ts}
		}),
		dbft.WithNewCommit[H](func(sig []byte) dbft.Commit { return &commitBody{slices.Clone(sig)} }),
		dbft.WithNewRecoveryRequest[H](func(ts uint64) dbft.RecoveryRequest { return &recReq{ts} }),
		dbft.WithNewRecoveryMessage[H](func() dbft.RecoveryMessage[H] { return &recMsg{} }),
		dbft.WithVerifyPrepareRequest[H](func(p dbft.ConsensusPayload[H]) error {
			if n.rejects(p.(*Payload)) {
				return errors.New("rejected by policy")
			}
			return nil
		}),
		dbft.WithVerifyPrepareResponse[H](func(p dbft.ConsensusPayload[H]) error {
			if n.rejects(p.(*Payload)) {
				return errors.New("rejected by policy")
			}
			return nil
		}),
		dbft.WithVerifyCommit[H](n.cbVerifyCommit),
	}
	if sc.AMEV >= 0 {
		opts = append(opts,
			dbft.WithAntiMEVExtensionEnablingHeight[H](sc.AMEV),
			dbft.WithNewPreBlockFromContext[H](n.cbNewPreBlock),
			dbft.WithProcessPreBlock[H](n.cbProcessPreBlock),
			dbft.WithNewPreCommit[H](func(data []byte) dbft.PreCommit { return &preCommitBody{slices.Clone(data)} }),
			dbft.WithVerifyPreBlock[H](n.cbVerifyPreBlock),
			dbft.WithVerifyPreCommit[H](n.cbVerifyPreCommit),
		)
	}
	if sc.MaxTimePerBlock > 0 {
		opts = append(opts,
			dbft.WithMaxTimePerBlock[H](func() time.Duration {
				if sc.TimeVar {
					return sc.MaxTimePerBlock + time.Duration(n.height%2)*5*time.Second
				}
				return sc.MaxTimePerBlock
			}),
			dbft.WithSubscribeForTxs[H](func() { n.subscribes++; n.subActive = true }),
		)
	}
	d, err := dbft.New[H](opts...)
	if err != nil {
		panic(err)
	}
	n.d = d
	n.m = newMon(0)
}

func (n *Node) amevAt(h uint32) bool { return n.sc().AMEV >= 0 && uint32(n.sc().AMEV) <= h }

// trusted reports whether safety monitors apply to this node now.
func (n *Node) trusted() bool { return n.kind.trusted() }

func (n *Node) ctx() *dbft.Context[H] { return &n.d.Context }

// monFor returns monitor memory for the node's current height.
func (n *Node) monFor(h uint32) *mon {
	if n.m == nil || n.m.height != h {
		n.m = newMon(h)
	}
	return n.m
}

// ------------------------------------------------------------ callbacks

func (n *Node) cbRequestTx(hs ...H) {
	m := n.monFor(n.d.BlockIndex)
	// C12 reference model: the set requested for the proposal of the current view.
	if !m.reqActive || m.reqView != n.d.ViewNumber {
		m.requested = map[H]bool{}
		m.reqView = n.d.ViewNumber
		m.reqActive = true
	}
	for _, h := range hs {
		m.requested[h] = true
	}
}

func (n *Node) verdict(txs []H) bool {
	bad := n.sc().BadTx[n.id]
	for _, t := range txs {
		if slices.Contains(bad, t) {
			return false
		}
	}
	return true
}

// completeTxs: the transactions attached to a (pre-)block are exactly the listed ones (a strict application verifier
// looks at them; the default verifier of the harness judges the hash list only, so that a block with a hole travels
// on to the monitors that name the hole).
func completeTxs(hashes []H, txs []dbft.Transaction[H]) bool {
	if len(hashes) != len(txs) {
		return false
	}
	for i, t := range txs {
		if t == nil || t.Hash() != hashes[i] {
			return false
		}
	}
	return true
}

func (n *Node) cbVerifyBlock(b dbft.Block[H]) bool {
	bb := b.(*Block)
	ok := n.verdict(bb.txHashes)
	if n.sc().StrictVerify && !completeTxs(bb.txHashes, bb.txs) {
		ok = false
	}
	n.monFor(n.d.BlockIndex).verifiedOK[bb.Hash()] = ok
	return ok
}

func (n *Node) cbVerifyPreBlock(b dbft.PreBlock[H]) bool {
	bb := b.(*PreBlock)
	ok := n.verdict(bb.txHashes)
	if n.sc().StrictVerify && !completeTxs(bb.txHashes, bb.txs) {
		ok = false
	}
	n.monFor(n.d.BlockIndex).verifiedOK[bb.hash()] = ok
	return ok
}

func (n *Node) cbVerifyCommit(p dbft.ConsensusPayload[H]) error {
	pp := p.(*Payload)
	if n.rejects(pp) {
		return errors.New("rejected by policy")
	}
	c := n.ctx()
	m := n.monFor(c.BlockIndex)
	constructible := c.RequestSentOrReceived()
	if n.amevAt(c.BlockIndex) {
		constructible = constructible && m.preBlockOK > 0
	}
	if constructible {
		m.commitVer[pp.Hash()] = true
	}
	return nil
}

func (n *Node) cbVerifyPreCommit(p dbft.ConsensusPayload[H]) error {
	pp := p.(*Payload)
	if n.rejects(pp) {
		return errors.New("rejected by policy")
	}
	c := n.ctx()
	if c.RequestSentOrReceived() && len(c.TransactionHashes) == len(c.Transactions) {
		n.monFor(c.BlockIndex).preCVer[pp.Hash()] = true
	}
	return nil
}

func (n *Node) cbNewBlock(c *dbft.Context[H]) dbft.Block[H] {
	m := n.monFor(c.BlockIndex)
	m.newBlockCalls++
	if n.trusted() && n.amevAt(c.BlockIndex) && m.preBlockOK == 0 {
		n.w.violate("C07", "C07/block-built-before-preblock", n, "NewBlockFromContext called before a successful ProcessPreBlock")
	}
	return &Block{index: c.BlockIndex, prev: c.PrevHash, ts: c.Timestamp, nonce: c.Nonce, txHashes: slices.Clone(c.TransactionHashes), owner: n}
}

func (n *Node) cbNewPreBlock(c *dbft.Context[H]) dbft.PreBlock[H] {
	if n.trusted() && !n.amevAt(c.BlockIndex) {
		n.w.violate("C07", "C07/preblock-built-below-enabling-height", n, "NewPreBlockFromContext called at a height below the enabling height")
	}
	return &PreBlock{index: c.BlockIndex, prev: c.PrevHash, ts: c.Timestamp, nonce: c.Nonce, txHashes: slices.Clone(c.TransactionHashes), owner: n}
}

func (n *Node) onSign(b *Block) {
	n.signs++
	m := n.monFor(n.d.BlockIndex)
	m.signCalls++
	if n.trusted() && n.amevAt(n.d.BlockIndex) && m.preBlockOK == 0 {
		n.w.violate("C07", "C07/block-signed-before-preblock", n, "Block.Sign called before a successful ProcessPreBlock")
	}
	if n.kind == kWatchFlag || n.kind == kOutside || n.watchNow {
		n.w.violate("C13", "C13/watch-only-signed-block", n, "watch-only node produced a block signature")
	}
}

func (n *Node) onSetData(b *PreBlock) {
	n.setDatas++
	n.monFor(n.d.BlockIndex).setDataCalls++
	if n.kind == kWatchFlag || n.kind == kOutside {
		n.w.violate("C13", "C13/watch-only-precommit-data", n, "watch-only node produced pre-commit data")
	}
}

func (n *Node) onTimerReset(h uint32, v byte, d time.Duration) {
	if d < 0 && n.trusted() {
		n.w.violate("C10", "C10/negative-duration", n, fmt.Sprintf("Timer.Reset(%d,%d,%v) with negative duration", h, v, d))
	}
	n.w.hookTimer(n, "Reset", h, v, d)
}

func (n *Node) onTimerExtend(d time.Duration) { n.w.hookTimer(n, "Extend", n.t.h, n.t.v, d) }

func (n *Node) cbBroadcast(p dbft.ConsensusPayload[H]) {
	pp := p.(*Payload)
	pp.Hash()
	n.broadcasts++
	n.outbox = append(n.outbox, pp)
	n.callBroadcasts = append(n.callBroadcasts, pp)
	n.w.hookBroadcast(n, pp)
	if n.kind == kWatchFlag || n.kind == kOutside || n.watchNow {
		n.w.violate("C13", "C13/watch-only-broadcast/"+typeShort[pp.typ], n, "watch-only node broadcast "+pp.String())
		return
	}
	if !n.trusted() {
		return
	}
	n.monBroadcast(pp)
}

func (n *Node) cbProcessPreBlock(b dbft.PreBlock[H]) error {
	c := n.ctx()
	m := n.monFor(c.BlockIndex)
	m.preBlockCall++
	if n.trusted() {
		if !n.amevAt(c.BlockIndex) {
			n.w.violate("C07", "C07/preblock-processed-below-enabling-height", n, "ProcessPreBlock invoked below the enabling height")
		}
		n.monPreBlockCertificate(b.(*PreBlock))
	}
	if f := n.sc().FailPreBlock; f != nil && f(n.id, c.BlockIndex, m.preBlockCall) {
		return errors.New("injected ProcessPreBlock failure")
	}
	m.preBlockOK++
	if n.trusted() && m.preBlockOK > 1 {
		n.w.violate("C07", "C07/preblock-processed-twice", n, "ProcessPreBlock succeeded twice at one height")
	}
	return nil
}

func (n *Node) cbProcessBlock(b dbft.Block[H]) error {
	bb := b.(*Block)
	c := n.ctx()
	m := n.monFor(c.BlockIndex)
	if n.trusted() {
		n.monBlockCertificate(bb)
	}
	m.blockCall++
	if f := n.sc().FailBlock; f != nil && n.amevAt(c.BlockIndex) && f(n.id, c.BlockIndex, m.blockCall) {
		return errors.New("injected ProcessBlock failure")
	}
	m.blockOK++
	if n.trusted() && m.blockOK > 1 {
		n.w.violate("C05", "C05/two-blocks-one-height", n, fmt.Sprintf("second ProcessBlock at height %d", bb.index))
	}
	n.w.onDecide(n, bb)
	if n.ledgerAhead {
		// duplicate of a block the ledger already has: ignored by the application
		n.pendingReset = true
		return nil
	}
	// the application's ledger advances; it will call Reset (an event)
	n.height = bb.index
	n.tip = bb.Hash()
	n.tipTS = bb.ts
	n.pendingReset = true
	n.pool = slices.DeleteFunc(n.pool, func(h H) bool { return slices.Contains(bb.txHashes, h) })
	return nil
}

// ------------------------------------------------------------ API wrapper

type apiPre struct {
	view      byte
	height    uint32
	blockSent bool
	timerOps  int
	fpQuiet   uint64
	inList    bool
}

// api runs one library call under the monitors.
func (n *Node) api(what string, in *Payload, f func()) {
	w := n.w
	c := n.ctx()
	pre := apiPre{view: c.ViewNumber, height: c.BlockIndex, blockSent: c.BlockSent(), timerOps: n.t.ops}
	started := n.t.armed || what == "Start"
	quietCheck := pre.blockSent && what != "Reset" && what != "Start" && n.trusted()
	if quietCheck {
		pre.fpQuiet = fingerprint(n, fpQuietSkip)
	}
	n.callBroadcasts = n.callBroadcasts[:0]
	n.curInput = in
	n.curWhat = what
	n.inAPI = true
	w.cur = n
	defer func() {
		n.inAPI = false
		w.cur = nil
		if r := recover(); r != nil {
			if hf, ok := r.(harnessFault); ok {
				panic(hf)
			}
			w.violate("C11", "C11/panic/"+what, n, fmt.Sprintf("panic in %s: %v\n%s", what, r, debug.Stack()))
			n.crashed = true // the process died: the node takes no further part
			n.outbox = n.outbox[:0]
		}
	}()
	if in != nil && n.trusted() {
		n.monInput(in)
	}
	f()
	_ = started
	n.monAfter(what, in, pre, quietCheck)
	n.curInput = nil
}

type harnessFault struct{ msg string }

func (n *Node) Start() {
	n.api("Start", nil, func() { n.d.Start(n.tipTS) })
	n.flush()
}

func (n *Node) Reset() {
	n.pendingReset, n.resetHeld, n.ledgerAhead = false, false, false
	n.api("Reset", nil, func() { n.d.Reset(n.tipTS) })
	n.flush()
}

func (n *Node) Receive(p *Payload) {
	if n.d != nil && p.srcNode != n.id && n.isValidator() && int(p.idx) == n.ctx().MyIndex && p.typ != dbft.RecoveryMessageType && p.typ != dbft.RecoveryRequestType {
		// a payload with the node's own validator index that this instance did not send: the node is a restarted
		// validator being told what it sent in its earlier life. From here on the send-side monitors (C03 one commit /
		// response per epoch, C04 evidence held at send time, C07 own pre-commit first) cannot be judged from this
		// instance's memory alone and are switched off for it, exactly as for amnesia members of closed-world runs;
		// the certificate, quiescence, timer, hygiene and phase-callback monitors stay on
		n.earlierLife = true
	}
	if rm, ok := p.body.(*recMsg); ok && n.d != nil && n.isValidator() {
		// ... the same when they come back inside somebody's recovery message
		for _, e := range rm.payloads {
			if int(e.idx) == n.ctx().MyIndex && e.srcNode != n.id {
				n.earlierLife = true
			}
		}
	}
	n.api("OnReceive", p, func() { n.d.OnReceive(p) })
	if n.earlierLife && !n.crashed && n.d != nil {
		if p.srcNode != n.id {
			n.noteEarlierLife(p)
		}
		if rm, ok := p.body.(*recMsg); ok {
			for _, e := range rm.payloads {
				if e.srcNode != n.id {
					n.noteEarlierLife(e)
				}
			}
		}
	}
	n.flush()
}

func (n *Node) Timeout(h uint32, v byte) {
	if h == n.t.h && v == n.t.v {
		n.t.consumed = true
	}
	n.api("OnTimeout", nil, func() { n.d.OnTimeout(h, v) })
	n.flush()
}

func (n *Node) SupplyTx(h H) {
	if h == 0x7777 && (n.m == nil || !n.m.reqActive) {
		n.foreignEarly = true
	}
	// notify-first applications call OnTransaction before the transaction becomes visible to GetTx
	late := n.sc().E2 != nil && n.sc().E2.NotifyFirst && !n.known[h]
	if late {
		defer func() { n.known[h] = true }()
	} else {
		n.known[h] = true
	}
	m := n.monFor(n.d.BlockIndex)
	wasRequested := m.reqActive && m.requested[h] && m.reqView == n.d.ViewNumber
	c := n.ctx()
	pre := struct {
		view   byte
		cvSent bool
		req    bool
		resp   bool
	}{c.ViewNumber, false, c.RequestSentOrReceived(), c.ResponseSent()}
	if !c.WatchOnly() {
		if cv := c.ChangeViewPayloads[c.MyIndex]; cv != nil {
			pre.cvSent = true
		}
	}
	n.api("OnTransaction", nil, func() { n.d.OnTransaction(Tx{h}) })
	if wasRequested && m.reqView == pre.view && n.monFor(n.d.BlockIndex) == m {
		delete(m.requested, h)
	}
	n.monTxSupplied(h, wasRequested, pre.view, pre.cvSent, pre.req, pre.resp)
	n.flush()
}

func (n *Node) NewTxNotify() {
	if n.sc().OneShotSub {
		// the documented single-use subscription: one notification per SubscribeForTxs call, none without
		if !n.subActive {
			return
		}
		n.subActive = false
	}
	n.api("OnNewTransaction", nil, func() { n.d.OnNewTransaction() })
	n.flush()
}

// flush moves the outbox into the network.
func (n *Node) flush() {
	for _, p := range n.outbox {
		n.w.send(n, p)
	}
	n.outbox = n.outbox[:0]
}

// rejects: the application's payload verifier refuses pp (scenario policy, or a payload marked as carrying a bad witness).
func (n *Node) rejects(pp *Payload) bool {
	return pp.badWitness || (n.sc().RejectPayload != nil && n.sc().RejectPayload(n.id, pp))
}
