package main

import (
	"fmt"
	"os"
	"strconv"
	"time"
)

// ---- scenario construction helpers

type opt func(*Scenario)

func scen(name string, n int, opts ...opt) *Scenario {
	sc := &Scenario{Name: name, N: n, AMEV: -1, MaxView: 2, Pool: []H{101, 102, 103, 104, 105, 106}, K: 2}
	sc.Dev = Dev{Reorder: true, Premature: true, Dup: true, Stale: true, Perm: true, Hold: true}
	for _, o := range opts {
		o(sc)
	}
	return sc
}

func withK(k int) opt        { return func(s *Scenario) { s.K = k } }
func withAMEV(h int64) opt   { return func(s *Scenario) { s.AMEV = h } }
func withHeights(h int) opt  { return func(s *Scenario) { s.Heights = h } }
func withMaxView(v byte) opt { return func(s *Scenario) { s.MaxView = v } }
func withMode(m string, focus ...int) opt {
	return func(s *Scenario) { s.Mode = m; s.Focus = focus }
}
func withKind(id int, k nodeKind) opt {
	return func(s *Scenario) {
		for len(s.Kinds) <= id {
			s.Kinds = append(s.Kinds, kHonest)
		}
		s.Kinds[id] = k
		if k == kByz {
			s.Dev.Byz = true
		}
		if k == kAmnesia {
			s.Dev.Restart = true
		}
	}
}
func withDev(f func(*Dev)) opt { return func(s *Scenario) { f(&s.Dev) } }
func withMissing(node int, txs ...H) opt {
	return func(s *Scenario) {
		if s.Missing == nil {
			s.Missing = map[int][]H{}
		}
		s.Missing[node] = txs
	}
}
func withBadTx(node int, txs ...H) opt {
	return func(s *Scenario) {
		if s.BadTx == nil {
			s.BadTx = map[int][]H{}
		}
		s.BadTx[node] = txs
	}
}

func amevName(a int64) string {
	switch {
	case a < 0:
		return "amev-off"
	case a == 0:
		return "amev-on"
	}
	return fmt.Sprintf("amev-from-%d", a)
}

func job(sc *Scenario, budgetS int) *Job { return &Job{Kind: "explore", Scenario: sc, BudgetS: budgetS} }

// primaryAt returns the validator index that is primary at (height, view) for n validators.
func primaryAt(h uint32, v byte, n int) int { return ((int(h)-int(v))%n + n) % n }

var e1Assumptions = []string{
	"payload authenticity: a payload with validator index i enters the network only through node i's Broadcast or the scripted menu of faulty member i",
	"harness hash (64-bit content hash) is collision free over the explored payloads; harness signatures are unforgeable by construction",
	"callbacks honour the documented contract (GetTx serves pool transactions, constructors return well-formed objects)",
	"bounds: validator counts, views, heights, transaction lists and deviation bound k as listed per scenario; nothing is claimed outside them",
	"build tag verif: cached-payload replay order is chosen by the explorer (hook H1) instead of Go map order",
}

func tierBudget(quick, thorough time.Duration) func(string) time.Duration {
	return func(t string) time.Duration {
		// VERIF_TIER_BUDGET_S overrides the wall-clock budget of a tier (used for dry runs of the thorough tier)
		if v, err := strconv.Atoi(os.Getenv("VERIF_TIER_BUDGET_S")); err == nil && v > 0 {
			return time.Duration(v) * time.Second
		}
		if t == "thorough" {
			return thorough
		}
		return quick
	}
}

// safetyFamily is the family of E1 safety-mode scenarios shared by C01..C04, C07, C10.
func safetyFamily(tier string, amevs []int64) []*Job {
	var jobs []*Job
	per := 100
	if tier == "thorough" {
		per = 1500
	}
	start := uint32(4)
	for _, a := range amevs {
		an := amevName(a)
		k := 2
		if tier == "thorough" {
			k = 3
		}
		// B0 fault-free, N=4
		jobs = append(jobs, job(scen("B0-faultfree-N4-"+an, 4, withAMEV(a), withK(k)), per))
		// B1 primary of view 0 silent
		p0 := primaryAt(start+1, 0, 4)
		jobs = append(jobs, job(scen(fmt.Sprintf("B1-silent-primary%d-N4-%s", p0, an), 4, withAMEV(a), withKind(p0, kSilent), withK(k)), per))
		// B7 one Byzantine member at each position
		for b := 0; b < 4; b++ {
			jobs = append(jobs, job(scen(fmt.Sprintf("B7-byz%d-N4-%s", b, an), 4, withAMEV(a), withKind(b, kByz), withK(2)), per))
		}
		// B3 a backup lacks a transaction; B4 a backup's VerifyBlock rejects
		bk := (p0 + 1) % 4
		jobs = append(jobs, job(scen(fmt.Sprintf("B3-missing-tx-n%d-N4-%s", bk, an), 4, withAMEV(a), withMissing(bk, 101), withK(2)), per))
		jobs = append(jobs, job(scen(fmt.Sprintf("B4-badtx-n%d-N4-%s", bk, an), 4, withAMEV(a), withBadTx(bk, 101), withK(2)), per))
	}
	// B13: one silent validator plus one directed link that loses everything: the nodes on the good side reach the
	// (pre)commit quorum and lock themselves while the node behind the bad link times out, asks to change view and has
	// to be rescued by recovery -- the states in which the commit lock and the view-change quorum carry agreement
	for _, a := range amevs {
		if a > 0 {
			continue
		}
		for s := 0; s < 4; s++ {
			for from := 0; from < 4; from++ {
				for to := 0; to < 4; to++ {
					if from == to || from == s || to == s {
						continue
					}
					sc := scen(fmt.Sprintf("B13-silent%d-lossy%d>%d-N4-%s", s, from, to, amevName(a)), 4, withAMEV(a), withKind(s, kSilent), withK(2))
					sc.LossyLinks = [][2]int{{from, to}}
					sc.FairTimers = true
					jobs = append(jobs, job(sc, per))
				}
			}
		}
	}
	// failing ProcessPreBlock (first call per node fails), anti-MEV on
	for _, a := range amevs {
		if a >= 0 {
			fp := scen("B11-preblock-fails-once-N4-"+amevName(a), 4, withAMEV(a), withK(2))
			fp.FailPre = 1
			jobs = append(jobs, job(fp, per))
		}
	}
	// pre-commit data bound to (height, transactions) only (see types.go preDataHash): with the same pool proposed
	// again after a view change, pre-commits of the abandoned view fit the new pre-block
	for _, a := range amevs {
		if a >= 0 {
			p0 := primaryAt(start+1, 0, 4)
			tb := scen(fmt.Sprintf("B1t-silent-primary%d-txbound-precommits-N4-%s", p0, amevName(a)), 4, withAMEV(a), withKind(p0, kSilent), withK(2))
			tb.PreDataTxOnly = true
			jobs = append(jobs, job(tb, per))
			tb2 := scen(fmt.Sprintf("B7t-byz%d-txbound-precommits-N4-%s", p0, amevName(a)), 4, withAMEV(a), withKind(p0, kByz), withK(2))
			tb2.PreDataTxOnly = true
			jobs = append(jobs, job(tb2, per))
		}
	}
	// failing ProcessBlock under anti-MEV (the library then waits for more Commits): first call per node fails
	for _, a := range amevs {
		if a >= 0 {
			fb := scen("B14-block-fails-once-N4-"+amevName(a), 4, withAMEV(a), withK(2))
			fb.FailBlk = 1
			jobs = append(jobs, job(fb, per))
		}
	}
	// validator counts that are not 3F+1 with a Byzantine primary (quorum arithmetic matters here)
	for _, n := range []int{5, 6} {
		b := primaryAt(start+1, 0, n)
		sc := scen(fmt.Sprintf("B7-byz-primary%d-N%d-amev-off", b, n), n, withKind(b, kByz), withK(2))
		sc.Dev.Dup, sc.Dev.Stale, sc.Dev.Perm = false, false, false
		jobs = append(jobs, job(sc, per))
	}
	// B12: the Byzantine primary equivocates as part of the base: proposal A to one half, B to the other,
	// valid (pre)commits for both to everybody
	for _, n := range []int{4, 5, 6, 7} {
		for _, a := range amevs {
			if a > 0 || (n > 5 && a >= 0) {
				continue
			}
			b := primaryAt(start+1, 0, n)
			var m1, m2, all int
			cnt := 0
			for i := 0; i < n; i++ {
				if i == b {
					continue
				}
				all |= 1 << i
				if cnt < (n-1)/2 {
					m1 |= 1 << i
				} else {
					m2 |= 1 << i
				}
				cnt++
			}
			sc := scen(fmt.Sprintf("B12-equivocating-primary%d-N%d-%s", b, n, amevName(a)), n, withAMEV(a), withKind(b, kByz), withK(2))
			sc.Dev.Dup, sc.Dev.Stale, sc.Dev.Perm = false, false, false
			if n > 4 {
				sc.K = 1
			}
			sc.ByzScript = []ByzStep{{"proposal A", 0, m1}, {"proposal B", 0, m2}, {"commit for proposal A", 0, all}, {"commit for proposal B", 0, all}}
			if a >= 0 {
				sc.ByzScript = append(sc.ByzScript, ByzStep{"precommit for proposal A", 0, all}, ByzStep{"precommit for proposal B", 0, all})
			}
			jobs = append(jobs, job(sc, per))
			// the same base with the network as the only source of deviations (no further Byzantine sends): small
			// enough to be exhausted at k=3
			if n == 4 {
				sn := scen(fmt.Sprintf("B12n-equivocating-primary%d-N%d-network-only-%s", b, n, amevName(a)), n, withAMEV(a), withKind(b, kByz), withK(3))
				sn.Dev = Dev{Reorder: true, Hold: true, Premature: true}
				sn.ByzScript = sc.ByzScript
				jobs = append(jobs, job(sn, per))
			}
		}
	}
	// B12m: the equivocating primary gives one backup a proposal with a transaction that backup lacks and fetches
	// slowly, so the commits of the others (for the other proposal) are there before the node can build its own block
	for _, a := range amevs {
		if a > 0 {
			continue
		}
		b := primaryAt(start+1, 0, 4)
		var hon []int
		for i := 0; i < 4; i++ {
			if i != b {
				hon = append(hon, i)
			}
		}
		for vi, victim := range hon {
			rest, all := 0, 0
			for _, i := range hon {
				all |= 1 << i
				if i != victim {
					rest |= 1 << i
				}
			}
			sc := scen(fmt.Sprintf("B12m-equivocating-primary%d-victim%d-slow-tx-N4-%s", b, victim, amevName(a)), 4, withAMEV(a), withKind(b, kByz), withK(1), withMissing(victim, 101))
			sc.Dev.Dup, sc.Dev.Stale, sc.Dev.Perm = false, false, false
			sc.TxLast = true
			// the primary's own (pre)commits go to the others only; whatever it sends to the slow backup is a deviation
			// (for instance its valid commit for the backup's proposal once the transaction has arrived)
			sc.ByzScript = []ByzStep{{"proposal B", 0, rest}, {"proposal A", 0, 1 << victim}, {"commit for proposal B", 0, rest}}
			if a >= 0 {
				sc.ByzScript = append(sc.ByzScript, ByzStep{"precommit for proposal B", 0, rest})
			}
			_ = all
			_ = vi
			jobs = append(jobs, job(sc, per))
		}
		// honest primary, one backup fetches a missing transaction slowly
		bk := (b + 2) % 4
		st := scen(fmt.Sprintf("B3-missing-tx-n%d-slow-N4-%s", bk, amevName(a)), 4, withAMEV(a), withMissing(bk, 101), withK(2))
		st.TxLast = true
		jobs = append(jobs, job(st, per))
	}
	// other validator counts, fault-free
	for _, n := range []int{1, 2, 3, 5, 6, 7} {
		k := 2
		if n >= 6 {
			k = 1
		}
		if tier == "thorough" && n < 7 {
			k++
		}
		jobs = append(jobs, job(scen(fmt.Sprintf("B0-faultfree-N%d-amev-off", n), n, withK(k)), per))
	}
	// N=7: two silent primaries (view 2 reachable), one Byzantine
	p0, p1 := primaryAt(start+1, 0, 7), primaryAt(start+1, 1, 7)
	jobs = append(jobs, job(scen("B2-two-silent-primaries-N7", 7, withKind(p0, kSilent), withKind(p1, kSilent), withK(1), withMaxView(3)), per))
	jobs = append(jobs, job(scen("B7-byz0-N7", 7, withKind(0, kByz), withK(1)), per))
	// two heights with AMEV switching on at the second one
	jobs = append(jobs, job(scen("B0-two-heights-N4-amev-switch", 4, withAMEV(int64(start+2)), withHeights(2), withK(2)), per))
	// amnesia restarts
	jobs = append(jobs, job(scen("B8-amnesia2-N4-amev-off", 4, withKind(2, kAmnesia), withK(2)), per))
	// the primary of view 0 is silent, the primary of view 1 may restart with empty state (it then meets its own
	// earlier proposal in the recovery messages of the others)
	for _, a := range amevs {
		if a > 0 {
			continue
		}
		p0, p1 := primaryAt(start+1, 0, 4), primaryAt(start+1, 1, 4)
		jobs = append(jobs, job(scen(fmt.Sprintf("B8-silent%d-amnesia%d-N4-%s", p0, p1, amevName(a)), 4, withAMEV(a), withKind(p0, kSilent), withKind(p1, kAmnesia), withK(2)), per))
	}
	if tier == "thorough" {
		// unbounded: every interleaving of deliveries, N=4 fault-free, one height (state-deduplicated)
		all := scen("U1-N4-all-delivery-orders", 4, withMode("all"))
		all.Dev = Dev{Reorder: true}
		jobs = append(jobs, job(all, per))
		allA := scen("U1-N4-all-delivery-orders-amev-on", 4, withMode("all"), withAMEV(0))
		allA.Dev = Dev{Reorder: true}
		jobs = append(jobs, job(allA, per))
		// unbounded at two focus nodes around the equivocating-primary base (others process eagerly), timers may fire early
		b := primaryAt(start+1, 0, 4)
		var hon []int
		for i := 0; i < 4; i++ {
			if i != b {
				hon = append(hon, i)
			}
		}
		for i := 0; i < len(hon); i++ {
			for j := i + 1; j < len(hon); j++ {
				sc := scen(fmt.Sprintf("U2-N4-focus-%d-%d-equivocating-primary%d", hon[i], hon[j], b), 4, withKind(b, kByz), withMode("focus", hon[i], hon[j]))
				sc.Dev = Dev{Reorder: true, Premature: true} // the equivocation is scripted; no further menu items
				sc.MaxView = 1
				sc.ByzScript = []ByzStep{{"proposal A", 0, 1 << hon[0]}, {"proposal B", 0, 1<<hon[1] | 1<<hon[2]}, {"commit for proposal A", 0, 1<<hon[0] | 1<<hon[1] | 1<<hon[2]}, {"commit for proposal B", 0, 1<<hon[0] | 1<<hon[1] | 1<<hon[2]}}
				jobs = append(jobs, job(sc, per))
			}
		}
		jobs = append(jobs, job(scen("B8-amnesia1-N4-amev-on", 4, withAMEV(0), withKind(1, kAmnesia), withK(2)), per))
		jobs = append(jobs, job(scen("B0-two-heights-N4-amev-off", 4, withHeights(2), withK(3)), per))
	}
	return jobs
}

func init() {
	checks["C01"] = &CheckSpec{
		ID: "C01", Level: "model_checking", Assumptions: e1Assumptions,
		Rule: "E1 closed-world explorer, safety mode (timers may fire at any moment): all executions with <=k deviations from the default schedule around each base scenario, state-deduplicated; oracle: per height <=1 distinct block hash handed to ProcessBlock by non-faulty nodes",
		Jobs: func(tier string) []*Job { return safetyFamily(tier, []int64{-1, 0}) },
		TierBudget: tierBudget(170*time.Second, 40*time.Minute),
		Vacuous: func(a *Aggregate) string {
			if len(a.Stats.Decisions) < 2 {
				return "fewer than two distinct (height,view) decision classes reached"
			}
			return ""
		},
	}
}

func e1Check(id, rule string, jobs func(tier string) []*Job, vac func(*Aggregate) string) {
	checks[id] = &CheckSpec{ID: id, Level: "model_checking", Assumptions: e1Assumptions, Rule: rule, Jobs: jobs,
		TierBudget: tierBudget(170*time.Second, 40*time.Minute), Vacuous: vac}
}

func needKinds(kinds ...string) func(*Aggregate) string {
	return func(a *Aggregate) string {
		for _, k := range kinds {
			if a.Stats.KindsSent[k] == 0 {
				return "no " + k + " was ever broadcast in the explored space"
			}
		}
		if len(a.Stats.Decisions) == 0 {
			return "no block was ever accepted in the explored space"
		}
		return ""
	}
}

func init() {
	e1Check("C02", "E1 safety-mode exploration (<=k deviations around each base, Byzantine menu incl. early/garbage/other-view commits and pre-commits); oracle at every ProcessBlock/ProcessPreBlock: >=M current-view (pre)commits whose signatures verify against exactly that block (re-evaluated by the oracle), block extends the ledger tip, equals the primary's proposal",
		func(tier string) []*Job {
			j := append(safetyFamily(tier, []int64{-1, 0}), e2Family(tier, []int64{-1, 0})...)
			// watch-only observers accept blocks too
			sp := E2Spec{Views: 2, Proposals: "A", Responses: "A", Commits: "AG", PreCommits: "AG", CVs: 1, Bundles: true, MaxDepth: 10, StateCap: 300_000, Peers: []int{0, 1, 3}}
			j = append(j, job(e2WatchScen("E2-watchflag-x2-start5-amev-on", 4, 2, false, 0, false, 5, sp), 100))
			sp.PreCommits = ""
			j = append(j, job(e2WatchScen("E2-outside-amev-off", 4, 0, true, -1, false, 4, sp), 100))
			return j
		}, needKinds("Commit", "PreCommit"))
	e1Check("C03", "E1 safety-mode exploration; oracle on every honest node's complete Broadcast history per height: <=1 proposal / response per view, <=1 commit and pre-commit per height (also inside recovery messages), no view move or ChangeView after own (pre)commit, own message views non-decreasing",
		func(tier string) []*Job { return append(safetyFamily(tier, []int64{-1, 0}), e2Family(tier, []int64{-1, 0})...) }, needKinds("Commit", "PreCommit", "CV", "RecMsg"))
	e1Check("C04", "E1 safety-mode exploration; oracle at each Broadcast / view increase, evaluated on the exported Context at that instant: response only for the designated primary's verified complete proposal naming its hash; (pre)commit only with proposal, all transactions and >=M preparations naming it; view v entered only with change views >=v from >=M validators (monitor's own record)",
		func(tier string) []*Job {
			j := append(safetyFamily(tier, []int64{-1, 0}), e2Family(tier, []int64{-1, 0})...)
			// views above the block height (first blocks of a chain) with N=7 and N=5: the designated primary is
			// (height - view) mod N with a negative dividend; proposals from EVERY index are offered in each view
			for _, n := range []int{7, 5} {
				sp := E2Spec{Views: 3, Proposals: "A", WrongPrim: true, WrongPrimAll: true, Bundles: true, NoTimeout: true, MaxDepth: 6, StateCap: 600_000}
				sc := e2scen(fmt.Sprintf("E2-low-height-N%d-x2-all-proposers", n), n, 2, -1, sp)
				sc.StartHeight, sc.ZeroStart = 0, true
				sc.Missing, sc.BadTx = map[int][]H{}, map[int][]H{}
				j = append(j, job(sc, 100))
			}
			return j
		}, needKinds("PResp", "Commit", "CV"))
	e1Check("C07", "E1 safety-mode exploration with anti-MEV on / switching on / off; oracle on per-node callback order: commit only after own pre-commit, successful ProcessPreBlock (<=1 per height) and M current-view pre-commits; block built/signed only after that; below the enabling height no pre-commit, pre-block or ProcessPreBlock",
		func(tier string) []*Job {
			j := append(safetyFamily(tier, []int64{0, 5, -1}), e2Family(tier, []int64{0, 6})...)
			// watch-only observers follow the same phase discipline (they process pre-blocks and blocks)
			sp := E2Spec{Views: 2, Proposals: "A", Responses: "A", Commits: "AG", PreCommits: "AG", CVs: 1, Bundles: true, MaxDepth: 10, StateCap: 300_000, Peers: []int{0, 1, 3}}
			j = append(j, job(e2WatchScen("E2-watchflag-x2-start5-amev-on", 4, 2, false, 0, false, 5, sp), 100))
			j = append(j, job(e2WatchScen("E2-outside-amev-on", 4, 0, true, 0, false, 4, sp), 100))
			wf := scen("C07-watchflag0-N4-amev-on", 4, withAMEV(0), withKind(0, kWatchFlag), withK(2))
			j = append(j, job(wf, 100))
			return j
		}, needKinds("PreCommit", "Commit"))
	e1Check("C10", "E1 safety-mode exploration; oracle after every API call on an undecided validator: injected timer armed for exactly (BlockIndex, ViewNumber), non-negative duration, not consumed-and-not-rearmed",
		func(tier string) []*Job {
			return append(append(safetyFamily(tier, []int64{-1, 0}), e2Family(tier, []int64{-1, 0})...), c10TimedJobs(tier)...)
		}, needKinds("CV", "RecReq"))
}
