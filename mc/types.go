package main

// Harness implementations of everything the library declares as user-provided:
// hash, transaction, payload + message bodies, block, pre-block, keys.
// Hashes are content hashes over all fields; signatures are unforgeable by
// construction: sig = (signer identity, block hash), minted only by Block.Sign
// of that identity's real node or by the Byzantine menu of that identity.

import (
	"encoding/binary"
	"errors"
	"fmt"
	"hash/fnv"

	"github.com/nspcc-dev/dbft"
)

// H is the 64-bit hash type used for payloads, blocks and transactions.
type H uint64

func (h H) String() string { return fmt.Sprintf("%016x", uint64(h)) }

// Tx is a transaction identified by its hash.
type Tx struct{ id H }

func (t Tx) Hash() H { return t.id }

// keys: identity is the global node id (validator lists may change per height).
type privKey struct{ id int }
type pubKey struct{ id int }

// hasher is a tiny helper around FNV-1a 64.
type hasher struct{ h uint64 }

func newHasher() *hasher { return &hasher{h: 14695981039346656037} }
func (s *hasher) b(x byte) {
	s.h ^= uint64(x)
	s.h *= 1099511628211
}
func (s *hasher) u64(x uint64) {
	s.h ^= x
	s.h *= 0x9fb21c651e98df25
	s.h ^= s.h >> 32
}
func (s *hasher) bytes(p []byte) {
	s.u64(uint64(len(p)))
	for _, x := range p {
		s.b(x)
	}
}
func (s *hasher) str(p string) {
	s.u64(uint64(len(p)))
	for i := 0; i < len(p); i++ {
		s.b(p[i])
	}
}
func (s *hasher) sum() uint64 {
	// final avalanche (splitmix) so that similar inputs spread
	z := s.h + 0x9e3779b97f4a7c15
	z = (z ^ (z >> 30)) * 0xbf58476d1ce4e5b9
	z = (z ^ (z >> 27)) * 0x94d049bb133111eb
	return z ^ (z >> 31)
}

func fnvStr(s string) uint64 { h := fnv.New64a(); h.Write([]byte(s)); return h.Sum64() }

// ---------------------------------------------------------------- bodies

type prepReq struct {
	ts    uint64
	nonce uint64
	txs   []H
}

func (p *prepReq) Timestamp() uint64      { return p.ts }
func (p *prepReq) Nonce() uint64          { return p.nonce }
func (p *prepReq) TransactionHashes() []H { return p.txs }

type prepResp struct{ prepHash H }

func (p *prepResp) PreparationHash() H { return p.prepHash }

type changeView struct {
	newView byte
	reason  dbft.ChangeViewReason
	ts      uint64
}

func (c *changeView) NewViewNumber() byte           { return c.newView }
func (c *changeView) Reason() dbft.ChangeViewReason { return c.reason }

type commitBody struct{ sig []byte }

func (c *commitBody) Signature() []byte { return c.sig }

type preCommitBody struct{ data []byte }

func (c *preCommitBody) Data() []byte { return c.data }

type recReq struct{ ts uint64 }

func (r *recReq) Timestamp() uint64 { return r.ts }

// recMsg carries the original payload objects (what a signature-preserving
// implementation reconstructs on the receiving side).
type recMsg struct {
	payloads []*Payload
	prepHash *H
}

func (m *recMsg) AddPayload(p dbft.ConsensusPayload[H]) {
	pp := p.(*Payload)
	switch pp.typ {
	case dbft.PrepareRequestType:
		h := pp.Hash()
		m.prepHash = &h
	case dbft.PrepareResponseType:
		if m.prepHash == nil {
			h := pp.body.(*prepResp).prepHash
			m.prepHash = &h
		}
	case dbft.RecoveryMessageType, dbft.RecoveryRequestType:
		return
	}
	m.payloads = append(m.payloads, pp)
}
func (m *recMsg) byType(t dbft.MessageType) []dbft.ConsensusPayload[H] {
	var r []dbft.ConsensusPayload[H]
	for _, p := range m.payloads {
		if p.typ == t {
			r = append(r, p)
		}
	}
	return r
}
func (m *recMsg) GetPrepareRequest(_ dbft.ConsensusPayload[H], _ []dbft.PublicKey, primary uint16) dbft.ConsensusPayload[H] {
	for _, p := range m.payloads {
		if p.typ == dbft.PrepareRequestType {
			return p
		}
	}
	return nil
}
func (m *recMsg) GetPrepareResponses(_ dbft.ConsensusPayload[H], _ []dbft.PublicKey) []dbft.ConsensusPayload[H] {
	return m.byType(dbft.PrepareResponseType)
}
func (m *recMsg) GetChangeViews(_ dbft.ConsensusPayload[H], _ []dbft.PublicKey) []dbft.ConsensusPayload[H] {
	return m.byType(dbft.ChangeViewType)
}
func (m *recMsg) GetPreCommits(_ dbft.ConsensusPayload[H], _ []dbft.PublicKey) []dbft.ConsensusPayload[H] {
	return m.byType(dbft.PreCommitType)
}
func (m *recMsg) GetCommits(_ dbft.ConsensusPayload[H], _ []dbft.PublicKey) []dbft.ConsensusPayload[H] {
	return m.byType(dbft.CommitType)
}
func (m *recMsg) PreparationHash() *H { return m.prepHash }

// ---------------------------------------------------------------- payload

// Payload implements dbft.ConsensusPayload[H].
type Payload struct {
	typ    dbft.MessageType
	height uint32
	view   byte
	idx    uint16
	body   any
	hash   H
	hashed bool

	srcNode int // harness bookkeeping: id of the node whose Broadcast produced it (-1: scripted)
	atStart bool // harness bookkeeping: broadcast from inside the Start call of a (re)started instance

	// badWitness: the payload is well formed and its consensus data (signature / pre-commit data) fits, but the
	// application's payload verifier (VerifyPrepareRequest/Response/PreCommit/Commit callback) refuses it, e.g. a bad
	// witness. Part of the content hash.
	badWitness bool
}

var _ dbft.ConsensusPayload[H] = (*Payload)(nil)

func (p *Payload) ViewNumber() byte       { return p.view }
func (p *Payload) Type() dbft.MessageType { return p.typ }
func (p *Payload) Payload() any           { return p.body }
func (p *Payload) ValidatorIndex() uint16 { return p.idx }
func (p *Payload) SetValidatorIndex(i uint16) {
	p.idx = i
	p.hashed = false
}
func (p *Payload) Height() uint32 { return p.height }

func (p *Payload) GetChangeView() dbft.ChangeView {
	if b, ok := p.body.(*changeView); ok {
		return b
	}
	panic(getterMisuse("GetChangeView", p))
}
func (p *Payload) GetPrepareRequest() dbft.PrepareRequest[H] {
	if b, ok := p.body.(*prepReq); ok {
		return b
	}
	panic(getterMisuse("GetPrepareRequest", p))
}
func (p *Payload) GetPrepareResponse() dbft.PrepareResponse[H] {
	if b, ok := p.body.(*prepResp); ok {
		return b
	}
	panic(getterMisuse("GetPrepareResponse", p))
}
func (p *Payload) GetPreCommit() dbft.PreCommit {
	if b, ok := p.body.(*preCommitBody); ok {
		return b
	}
	panic(getterMisuse("GetPreCommit", p))
}
func (p *Payload) GetCommit() dbft.Commit {
	if b, ok := p.body.(*commitBody); ok {
		return b
	}
	panic(getterMisuse("GetCommit", p))
}
func (p *Payload) GetRecoveryRequest() dbft.RecoveryRequest {
	if b, ok := p.body.(*recReq); ok {
		return b
	}
	panic(getterMisuse("GetRecoveryRequest", p))
}
func (p *Payload) GetRecoveryMessage() dbft.RecoveryMessage[H] {
	if b, ok := p.body.(*recMsg); ok {
		return b
	}
	panic(getterMisuse("GetRecoveryMessage", p))
}

// getterMisuse: the typed getters are documented as "returns payload as if it was X"; the bundled reference
// implementation (internal/consensus) does an unchecked type assertion there, i.e. it panics when the library asks a
// payload of one type for the body of another. The harness payload does the same so that such a call is seen by the
// panic watch of C11 instead of being silently answered with nil.
func getterMisuse(getter string, p *Payload) string {
	return "payload getter " + getter + "() called on a " + p.typ.String() + " payload (the bundled payload implementation panics here: interface conversion)"
}

// Hash is a content hash over every field of the payload.
func (p *Payload) Hash() H {
	if p.hashed {
		return p.hash
	}
	s := newHasher()
	s.b(byte(p.typ))
	s.u64(uint64(p.height))
	s.b(p.view)
	s.u64(uint64(p.idx))
	if p.badWitness {
		s.b(0xbd)
	}
	switch b := p.body.(type) {
	case *prepReq:
		s.u64(b.ts)
		s.u64(b.nonce)
		s.u64(uint64(len(b.txs)))
		for _, t := range b.txs {
			s.u64(uint64(t))
		}
	case *prepResp:
		s.u64(uint64(b.prepHash))
	case *changeView:
		s.b(b.newView)
		s.b(byte(b.reason))
		s.u64(b.ts)
	case *commitBody:
		s.bytes(b.sig)
	case *preCommitBody:
		s.bytes(b.data)
	case *recReq:
		s.u64(b.ts)
	case *recMsg:
		// order-insensitive over embedded payloads
		var acc uint64
		for _, e := range b.payloads {
			acc += uint64(e.Hash()) * 0x9e3779b97f4a7c15
		}
		s.u64(acc)
		s.u64(uint64(len(b.payloads)))
		if b.prepHash != nil {
			s.u64(uint64(*b.prepHash))
		} else {
			s.b(0)
		}
	default:
		s.str(fmt.Sprintf("%T", p.body))
	}
	p.hash = H(s.sum())
	p.hashed = true
	return p.hash
}

var typeShort = map[dbft.MessageType]string{
	dbft.ChangeViewType: "CV", dbft.PrepareRequestType: "PReq", dbft.PrepareResponseType: "PResp",
	dbft.CommitType: "Commit", dbft.PreCommitType: "PreCommit", dbft.RecoveryRequestType: "RecReq",
	dbft.RecoveryMessageType: "RecMsg",
}

// String is a human-readable summary used in replay files and samples.
func (p *Payload) String() string {
	s := fmt.Sprintf("%s(h%d v%d from%d", typeShort[p.typ], p.height, p.view, p.idx)
	switch b := p.body.(type) {
	case *prepReq:
		s += fmt.Sprintf(" ts=%d nonce=%x txs=%v", b.ts, b.nonce&0xffff, b.txs)
	case *prepResp:
		s += fmt.Sprintf(" for=%x", uint64(b.prepHash)&0xffff)
	case *changeView:
		s += fmt.Sprintf(" new=%d %s", b.newView, b.reason)
	case *commitBody:
		s += " sig=" + sigString(b.sig)
	case *preCommitBody:
		s += " data=" + sigString(b.data)
	case *recMsg:
		s += " ["
		for i, e := range b.payloads {
			if i > 0 {
				s += " "
			}
			s += fmt.Sprintf("%s/%d/v%d", typeShort[e.typ], e.idx, e.view)
		}
		s += "]"
	}
	return s + fmt.Sprintf(" #%x)", uint64(p.Hash())&0xffff)
}

// ---------------------------------------------------------------- signatures

// mkSig mints the signature of identity id over block hash h (kind 'B' block, 'P' pre-block).
func mkSig(kind byte, id int, h H) []byte { return mkSigN(kind, id, h, 0) }

// mkSigN: like a randomized signature scheme, signing the same data again yields different bytes (the signing
// nonce n); verification does not depend on it.
func mkSigN(kind byte, id int, h H, n int) []byte {
	b := make([]byte, 13)
	b[0] = kind
	binary.LittleEndian.PutUint16(b[1:], uint16(id))
	binary.LittleEndian.PutUint64(b[3:], uint64(h))
	binary.LittleEndian.PutUint16(b[11:], uint16(n))
	return b
}

func checkSig(kind byte, pub dbft.PublicKey, h H, sig []byte) error {
	pk, ok := pub.(pubKey)
	if !ok {
		return errors.New("bad public key")
	}
	if len(sig) != 13 || sig[0] != kind {
		return errors.New("malformed signature")
	}
	if int(binary.LittleEndian.Uint16(sig[1:])) != pk.id {
		return errors.New("wrong signer")
	}
	if H(binary.LittleEndian.Uint64(sig[3:])) != h {
		return errors.New("signature is for other data")
	}
	return nil
}

func sigString(sig []byte) string {
	if len(sig) != 13 {
		return fmt.Sprintf("garbage%x", sig)
	}
	return fmt.Sprintf("%c:id%d:%x", sig[0], binary.LittleEndian.Uint16(sig[1:]), binary.LittleEndian.Uint64(sig[3:])&0xffff)
}

// ---------------------------------------------------------------- block

// Block implements dbft.Block[H].
type Block struct {
	index    uint32
	prev     H
	ts       uint64
	nonce    uint64
	txHashes []H
	txs      []dbft.Transaction[H]
	txsSet   bool
	sig      []byte
	owner    *Node // node whose callbacks created it (for Sign accounting)
}

var _ dbft.Block[H] = (*Block)(nil)

func blockHash(index uint32, prev H, ts, nonce uint64, txs []H) H {
	s := newHasher()
	s.b('B')
	s.u64(uint64(index))
	s.u64(uint64(prev))
	s.u64(ts)
	s.u64(nonce)
	s.u64(uint64(len(txs)))
	for _, t := range txs {
		s.u64(uint64(t))
	}
	return H(s.sum())
}

func (b *Block) Hash() H     { return blockHash(b.index, b.prev, b.ts, b.nonce, b.txHashes) }
func (b *Block) PrevHash() H { return b.prev }
func (b *Block) MerkleRoot() H {
	s := newHasher()
	for _, t := range b.txHashes {
		s.u64(uint64(t))
	}
	return H(s.sum())
}
func (b *Block) Index() uint32     { return b.index }
func (b *Block) Signature() []byte { return b.sig }
func (b *Block) Sign(key dbft.PrivateKey) error {
	k, ok := key.(privKey)
	if !ok {
		return errors.New("no private key")
	}
	nonce := 0
	if b.owner != nil {
		b.owner.onSign(b)
		nonce = b.owner.monFor(b.index).signCalls - 1
	}
	b.sig = mkSigN('B', k.id, b.Hash(), nonce)
	return nil
}
func (b *Block) Verify(key dbft.PublicKey, sign []byte) error {
	return checkSig('B', key, b.Hash(), sign)
}
func (b *Block) Transactions() []dbft.Transaction[H] { return b.txs }
func (b *Block) SetTransactions(t []dbft.Transaction[H]) {
	b.txs = t
	b.txsSet = true
}

// PreBlock implements dbft.PreBlock[H].
type PreBlock struct {
	index    uint32
	prev     H
	ts       uint64
	nonce    uint64
	txHashes []H
	txs      []dbft.Transaction[H]
	data     []byte
	owner    *Node
}

var _ dbft.PreBlock[H] = (*PreBlock)(nil)

func (b *PreBlock) hash() H {
	return blockHash(b.index, b.prev, b.ts, b.nonce, b.txHashes) ^ 0x5050505050505050
}

// preDataTxOnly selects what the pre-commit data (a decryption share in a real threshold scheme) is bound to: the whole
// pre-block header (default), or only the height and the transaction list -- then a share made for the proposal of an
// earlier view also fits a later proposal with the same transactions. Process-wide, set by newWorld from the scenario.
var preDataTxOnly bool

func preDataHash(index uint32, prev H, ts, nonce uint64, txs []H) H {
	if preDataTxOnly {
		return blockHash(index, 0, 0, 0, txs) ^ 0x5050505050505050
	}
	return blockHash(index, prev, ts, nonce, txs) ^ 0x5050505050505050
}
func (b *PreBlock) dataHash() H  { return preDataHash(b.index, b.prev, b.ts, b.nonce, b.txHashes) }
func (b *PreBlock) Data() []byte { return b.data }
func (b *PreBlock) SetData(key dbft.PrivateKey) error {
	k, ok := key.(privKey)
	if !ok {
		return errors.New("no private key")
	}
	nonce := 0
	if b.owner != nil {
		b.owner.onSetData(b)
		nonce = b.owner.monFor(b.index).setDataCalls - 1
	}
	b.data = mkSigN('P', k.id, b.dataHash(), nonce)
	return nil
}
func (b *PreBlock) Verify(key dbft.PublicKey, data []byte) error {
	return checkSig('P', key, b.dataHash(), data)
}
func (b *PreBlock) Transactions() []dbft.Transaction[H]     { return b.txs }
func (b *PreBlock) SetTransactions(t []dbft.Transaction[H]) { b.txs = t }

// withView returns p with another view number (scripted payloads only, before hashing).
func (p *Payload) withView(v byte) *Payload {
	p.view = v
	p.hashed = false
	return p
}
