package main

// E5: drivers that run the real timer / the real simulation under go1.26.8's
// testing/synctest (fake runtime clock). The explorer logic lives in Go test
// files under /verif/e5; this file runs them and converts their result files
// into evidence.

import (
	"encoding/json"
	"fmt"
	"os"
	"os/exec"
	"path/filepath"
	"strings"
	"time"
)

// e5ModArgs returns -modfile arguments when a non-default repository tree is checked.
func e5ModArgs() []string {
	repo := repoDir()
	src := verifDir() + "/e5"
	sum, _ := os.ReadFile(repo + "/go.sum")
	if repo == "/repo" {
		os.WriteFile(src+"/go.sum", sum, 0o644)
		return nil
	}
	dir := verifDir() + "/scratch/" + strings.ReplaceAll(repo, "/", "_") + "/e5"
	os.MkdirAll(dir, 0o755)
	mod, _ := os.ReadFile(src + "/go.mod")
	os.WriteFile(dir+"/go.mod", []byte(strings.ReplaceAll(string(mod), "=> /repo", "=> "+repo)), 0o644)
	os.WriteFile(dir+"/go.sum", sum, 0o644)
	return []string{"-modfile=" + dir + "/go.mod"}
}

func goTool() string {
	if g := os.Getenv("GO"); g != "" {
		return g
	}
	return "go1.26.8"
}

// runGoTest runs `go test` in dir with extra env; returns combined output and error.
func runGoTest(dir string, env []string, args ...string) (string, error) {
	a := append([]string{"test"}, args...)
	cmd := exec.Command(goTool(), a...)
	cmd.Dir = dir
	cmd.Env = append(os.Environ(), env...)
	out, err := cmd.CombinedOutput()
	return string(out), err
}

func c18Check(tier string) int {
	start := time.Now()
	maxLen := 7
	if tier == "thorough" {
		maxLen = 9
	}
	tmp, _ := os.MkdirTemp("", "c18")
	defer os.RemoveAll(tmp)
	outFile := filepath.Join(tmp, "c18.json")
	args := append(e5ModArgs(), "-count=1", "-timeout", "120m", "-run", "TestC18", "./timermc/")
	out, err := runGoTest(verifDir()+"/e5", []string{fmt.Sprintf("C18_MAXLEN=%d", maxLen), "C18_OUT=" + outFile}, args...)
	var res struct {
		Sequences  int64      `json:"sequences"`
		Nontrivial int64      `json:"nontrivial"`
		Alphabet   string     `json:"alphabet"`
		Samples    [][]string `json:"samples"`
		Failures   []struct {
			Key string   `json:"key"`
			Msg string   `json:"msg"`
			Seq []string `json:"sequence"`
		} `json:"failures"`
	}
	b, rerr := os.ReadFile(outFile)
	if rerr != nil || json.Unmarshal(b, &res) != nil {
		if strings.Contains(out, "all goroutines in bubble are blocked") || strings.Contains(out, "deadlock") {
			// the timer blocked forever inside a Reset/Extend call: the bubble (and with it the driver) dies
			return finishEnum("C18", tier, start, 1, 2, map[string]c06fail{"C18/timer-call-blocks-forever": {"C18/timer-call-blocks-forever", tail(out, 1800)}},
				[]any{"driver aborted by a deadlocked bubble"}, "sequence enumeration aborted: a Reset/Extend call never returned (deadlocked synctest bubble)", false, nil)
		}
		fmt.Fprintln(os.Stderr, "C18 driver did not produce a result:", err, "\n", tail(out, 3000))
		return 2
	}
	fails := map[string]c06fail{}
	for _, f := range res.Failures {
		fails[f.Key] = c06fail{f.Key, f.Msg + " sequence: " + strings.Join(f.Seq, " ")}
	}
	if err != nil && len(fails) == 0 {
		// e.g. the real-clock smoke test or a deadlocked bubble
		fails["C18/driver-failure"] = c06fail{"C18/driver-failure", tail(out, 1500)}
	}
	var samples []any
	for _, s := range res.Samples {
		samples = append(samples, s)
	}
	return finishEnum("C18", tier, start, res.Sequences, res.Nontrivial, fails, samples,
		fmt.Sprintf("every sequence of length 1..%d over the alphabet %s followed by a drain phase (1ns before the deadline: nothing; at the deadline: the value; later: nothing more), each in its own testing/synctest bubble against the real timer.Timer; oracle = reference model (latest reset instant, accumulated duration, consumed flag); non-trivial = contains a Reset and a wait/poll", maxLen, res.Alphabet),
		true, []string{"testing/synctest fake clock (go1.26.8): instants are exact, so 'within scheduling tolerance' is checked as 'exactly at the deadline'", "a separate real-clock smoke test asserts only the one-sided never-early bound"})
}

func init() {
	checks["C18"] = &CheckSpec{ID: "C18", Custom: c18Check}
}

func c19Check(tier string) int {
	start := time.Now()
	tmp, _ := os.MkdirTemp("", "c19")
	defer os.RemoveAll(tmp)
	outFile := filepath.Join(tmp, "c19.json")
	args := append(e5ModArgs(), "-count=1", "-timeout", "120m", "-run", "TestC19", "./codecmc/")
	out, err := runGoTest(verifDir()+"/e5", []string{"C19_TIER=" + tier, "C19_OUT=" + outFile}, args...)
	var res struct {
		Evaluations int64    `json:"evaluations"`
		Nontrivial  int64    `json:"nontrivial"`
		Samples     []string `json:"samples"`
		Failures    []struct {
			Key string `json:"key"`
			Msg string `json:"msg"`
		} `json:"failures"`
	}
	b, rerr := os.ReadFile(outFile)
	if rerr != nil || json.Unmarshal(b, &res) != nil {
		fmt.Fprintln(os.Stderr, "C19 driver did not produce a result:", err, "\n", tail(out, 3000))
		return 2
	}
	fails := map[string]c06fail{}
	for _, f := range res.Failures {
		fails[f.Key] = c06fail{f.Key, f.Msg}
	}
	var samples []any
	for _, s := range res.Samples {
		samples = append(samples, s)
	}
	return finishEnum("C19", tier, start, res.Evaluations, res.Nontrivial, fails, samples,
		"small-scope enumeration on the real internal/consensus, internal/crypto, internal/merkle code in one process: every payload kind x {view,height,index in {0,1,max}} x body fields in {0,1,max} / all ordered selections of <=3 of 3 hashes / 3 signatures / recovery messages from every subset of a 6-payload pool: hash is content-only, injective on content (all pairs, via maps), follows SetValidatorIndex; wire round trip of every decodable payload compared through the interface getters; proposal/response rebuilt from a recovery message; all byte strings of length <=2 (thorough: <=3), every truncation, single-byte substitution (5 values; thorough: all 255) and one-byte extension of ~190 valid encodings fed to the payload and block decoders under recover; blocks (5265 contents) and anti-MEV blocks built from a pre-block and three pre-commit data items (1728 contents): hash injective, signature-independent, signatures verify only under the signer's key for that block; ECDSA 3 keys x 3 messages all combinations + every bit flip of one signature; Merkle roots injective over all lists of length <=6 over 3 leaves (same length); non-trivial = distinct payload + block contents",
		true, []string{"timestamps at the codec's one-second granularity; ChangeView newViewNumber/reason are not wire fields", "PreCommit payloads are not accepted by the reference decoder (not in its type switch), so they take part in hash checks only", "hashes are content-only within one process (gob type ids depend on first-use order)"})
}

func init() {
	checks["C19"] = &CheckSpec{ID: "C19", Custom: c19Check}
}

func c17Check(tier string) int {
	start := time.Now()
	repo := repoDir()
	tmp, _ := os.MkdirTemp("", "c17")
	defer os.RemoveAll(tmp)
	ov := filepath.Join(tmp, "overlay.json")
	ovj, _ := json.Marshal(map[string]any{"Replace": map[string]string{repo + "/internal/simulation/zz_verif_mc_test.go": verifDir() + "/e5/simmc/sim_mc_test.go.src"}})
	os.WriteFile(ov, ovj, 0o644)
	outFile := filepath.Join(tmp, "c17.json")
	k := "1"
	if tier == "thorough" {
		k = "2"
	}
	out, err := runGoTest(repo, []string{"C17_TIER=" + tier, "C17_K=" + k, "C17_OUT=" + outFile},
		"-overlay="+ov, "-vet=off", "-count=1", "-timeout", "120m", "-run", "TestC17MC", "./internal/simulation/")
	var res struct {
		Executions int64    `json:"executions"`
		Points     int64    `json:"scheduling_points"`
		Distinct   int64    `json:"distinct_final_height_vectors"`
		PerCfg     []string `json:"per_config"`
		Exhaustive bool     `json:"exhaustive"`
		Samples    []any    `json:"samples"`
		Failures   []struct {
			Key     string `json:"key"`
			Msg     string `json:"msg"`
			Choices []int  `json:"choices"`
		} `json:"failures"`
	}
	b, rerr := os.ReadFile(outFile)
	if rerr != nil || json.Unmarshal(b, &res) != nil {
		fmt.Fprintln(os.Stderr, "C17 driver did not produce a result:", err, "\n", tail(out, 3000))
		return 2
	}
	fails := map[string]c06fail{}
	for _, f := range res.Failures {
		fails[f.Key] = c06fail{f.Key, fmt.Sprintf("%s; schedule (choice per scheduling point, 0=FIFO): %v", f.Msg, f.Choices)}
	}
	if err != nil && len(fails) == 0 {
		fmt.Fprintln(os.Stderr, "C17 driver failed:\n", tail(out, 3000))
		return 2
	}
	// free-running pass under the race detector (the cooperative driver hides data races)
	raceOut, raceErr := runGoTest(repo, nil, "-race", "-overlay="+ov, "-vet=off", "-count=1", "-timeout", "30m", "-run", "TestC17Free", "./internal/simulation/")
	raceNote := "free-running -race pass: ok"
	if strings.Contains(raceOut, "DATA RACE") {
		fails["C17/data-race-in-free-run"] = c06fail{"C17/data-race-in-free-run", tail(raceOut, 2500)}
	} else if raceErr != nil {
		if strings.Contains(raceOut, "free run: validator") {
			fails["C17/chain-too-short-free-run"] = c06fail{"C17/chain-too-short-free-run", tail(raceOut, 1500)}
		} else {
			fmt.Fprintln(os.Stderr, "C17 free-running pass failed to run:\n", tail(raceOut, 3000))
			return 2
		}
	}
	known := loadKnown()
	exit, nviol := 0, 0
	var lines []string
	for key, f := range fails {
		path := fmt.Sprintf("%s/replays/C17-%08x.json", outDir(), uint32(fnvStr(key)))
		writeJSON(path, map[string]any{"property": "C17", "key": key, "msg": f.msg})
		if what, ok := known.open("C17", key); ok {
			lines = append(lines, fmt.Sprintf("KNOWN-FINDING: property=C17 %s [%s]", what, key))
			continue
		}
		nviol++
		exit = 1
		lines = append(lines, fmt.Sprintf("VIOLATION property=C17 replay=%s", path))
		fmt.Fprintf(os.Stderr, "violation %s: %s\n", key, f.msg)
	}
	ev := &Evidence{PropertyID: "C17", Tier: tier, Seed: seedEnv(), Level: "model_checking", WallS: time.Since(start).Seconds(), Violations: nviol,
		Assumptions: []string{"the harness controls deliveries and virtual time, not the Go scheduler: node goroutines share no mutable state except the channels the harness serialises (argued, plus the free-running -race pass)",
			"ECDSA keys, signatures and mempool iteration order come from real randomness; schedules address nodes by validator index and results are compared by heights/views, not hashes",
			"deviations (queue jump, hold until quiescence, early second) are taken only inside the per-config window DevSeconds; deviated schedules run 60 virtual seconds, the default one 120"},
		Coverage: map[string]any{"states": res.Points, "transitions": res.Points, "traces_validated_against_impl": res.Executions, "samples": res.Samples,
			"executions": res.Executions, "exhaustive": res.Exhaustive, "distinct_final_height_vectors": res.Distinct, "per_config": res.PerCfg, "deviation_bound_k": k,
			"rule": "stateless depth-first exploration of delivery schedules of the real simulation program in a synctest bubble; scheduling points = {deliver one pending payload, hold the oldest until quiescence, let a second pass}; default FIFO; all schedules with <=k deviations inside the window; states/transitions = scheduling points executed on the real program; every execution is itself a run of the implementation",
			"race_pass": raceNote, "known_findings_printed": lines}}
	writeEvidence(ev)
	for _, l := range lines {
		fmt.Println(l)
	}
	fmt.Printf("C17 %s: executions=%d scheduling_points=%d distinct_outcomes=%d exhaustive=%v violations=%d wall=%.1fs\n", tier, res.Executions, res.Points, res.Distinct, res.Exhaustive, nviol, time.Since(start).Seconds())
	return exit
}

func init() {
	checks["C17"] = &CheckSpec{ID: "C17", Custom: c17Check}
}
