package main

// Scripted Byzantine members: no library instance; at every state they may send
// any element of a finite menu built from their own identity plus replays of
// payloads already seen on the wire. They cannot forge other identities:
// every menu payload carries the member's own validator index and signatures
// are minted with its own identity only.

import (
	"fmt"
	"slices"
	"sort"

	"github.com/nspcc-dev/dbft"
)

type byzState struct {
	w    *World
	ids  []int
	sent map[[2]uint64]bool // (payload hash, destination mask) already sent
	Pair bool               // include two-element destination sets
}

func newByzState(w *World) *byzState {
	b := &byzState{w: w, sent: map[[2]uint64]bool{}}
	for id, k := range w.sc.Kinds {
		if k == kByz {
			b.ids = append(b.ids, id)
		}
	}
	b.Pair = w.sc.N <= 4
	return b
}

func (b *byzState) key() uint64 {
	var xs []uint64
	for k := range b.sent {
		xs = append(xs, k[0]*131+k[1])
	}
	slices.Sort(xs)
	s := newHasher()
	for _, x := range xs {
		s.u64(x)
	}
	return s.sum()
}

type byzItem struct {
	p    *Payload
	desc string
}

// heightsInPlay: heights the real nodes are working on, with prev hash and prev timestamp.
func (b *byzState) heightsInPlay() map[uint32][2]uint64 {
	r := map[uint32][2]uint64{}
	for _, n := range b.w.nodes {
		if n.live() && n.d != nil && !n.pendingReset {
			h := n.d.BlockIndex
			if h == n.height+1 {
				r[h] = [2]uint64{uint64(n.tip), n.tipTS}
			}
		}
	}
	return r
}

func (b *byzState) viewsInPlay(h uint32) []byte {
	vs := map[byte]bool{}
	for _, n := range b.w.nodes {
		if n.live() && n.d != nil && n.d.BlockIndex == h {
			v := n.d.ViewNumber
			vs[v] = true
			if v < b.w.sc.MaxView {
				vs[v+1] = true
			}
		}
	}
	var r []byte
	for v := range vs {
		r = append(r, v)
	}
	slices.Sort(r)
	return r
}

// items builds the payload menu of Byzantine member id.
func (b *byzState) items(id int) []byzItem {
	w := b.w
	sc := w.sc
	var out []byzItem
	add := func(p *Payload, d string) { p.Hash(); out = append(out, byzItem{p, d}) }
	hp := b.heightsInPlay()
	var hs []uint32
	for h := range hp {
		hs = append(hs, h)
	}
	slices.Sort(hs)
	for _, h := range hs {
		vals := sc.validatorsAt(h)
		idx := slices.Index(vals, id)
		if idx < 0 {
			continue
		}
		nv := len(vals)
		prev, prevTS := H(hp[h][0]), hp[h][1]
		amev := sc.AMEV >= 0 && uint32(sc.AMEV) <= h
		for _, v := range b.viewsInPlay(h) {
			mk := func(t dbft.MessageType, body any) *Payload {
				return &Payload{typ: t, height: h, view: v, idx: uint16(idx), body: body}
			}
			prim := ((int(h)-int(v))%nv + nv) % nv
			// proposals known for (h,v): from the wire plus own A/B
			var props []*Payload
			if prim == idx {
				ts := prevTS + sc.TSIncrement
				var txA []H
				if len(sc.Pool) > 0 {
					txA = []H{sc.Pool[0]}
				}
				pa := mk(dbft.PrepareRequestType, &prepReq{ts: ts, nonce: 0xA0 + uint64(v), txs: txA})
				pb := mk(dbft.PrepareRequestType, &prepReq{ts: ts, nonce: 0xB0 + uint64(v), txs: nil})
				pa.srcNode, pb.srcNode = -1, -1
				add(pa, "proposal A")
				add(pb, "proposal B")
				props = append(props, pa, pb)
			}
			for _, q := range w.wire {
				if q.typ == dbft.PrepareRequestType && q.height == h && q.view == v && int(q.idx) == prim && prim != idx {
					props = append(props, q)
				}
			}
			for _, q := range props {
				r := q.body.(*prepReq)
				if prim != idx {
					add(mk(dbft.PrepareResponseType, &prepResp{q.Hash()}), "response for a known proposal")
				}
				bh := blockHash(h, prev, r.ts, r.nonce, r.txs)
				add(mk(dbft.CommitType, &commitBody{mkSig('B', id, bh)}), "commit for "+propName(q, id))
				if amev {
					add(mk(dbft.PreCommitType, &preCommitBody{mkSig('P', id, preDataHash(h, prev, r.ts, r.nonce, r.txs))}), "precommit for "+propName(q, id))
				}
			}
			add(mk(dbft.PrepareResponseType, &prepResp{H(0xbad0 + uint64(v))}), "response for unknown hash")
			add(mk(dbft.CommitType, &commitBody{mkSig('B', id, H(0xdead))}), "garbage commit")
			if amev {
				add(mk(dbft.PreCommitType, &preCommitBody{mkSig('P', id, H(0xdead))}), "garbage precommit")
			}
			if v < 255 {
				add(mk(dbft.ChangeViewType, &changeView{newView: v + 1, reason: dbft.CVTimeout, ts: 1}), "change view")
			}
			add(mk(dbft.RecoveryRequestType, &recReq{ts: 1}), "recovery request")
			// recovery bundles: replay of everything seen for (h, view<=v) + own lies
			rm := &recMsg{}
			for _, q := range w.wire {
				if q.height != h || q.typ == dbft.RecoveryMessageType || q.typ == dbft.RecoveryRequestType {
					continue
				}
				switch q.typ {
				case dbft.PrepareRequestType, dbft.PrepareResponseType:
					if q.view == v {
						rm.AddPayload(q)
					}
				case dbft.ChangeViewType:
					if q.body.(*changeView).newView >= v {
						rm.AddPayload(q)
					}
				default:
					rm.AddPayload(q)
				}
			}
			if len(rm.payloads) > 0 {
				sort.Slice(rm.payloads, func(i, j int) bool { return rm.payloads[i].Hash() < rm.payloads[j].Hash() })
				add(mk(dbft.RecoveryMessageType, rm), "recovery bundle of seen payloads")
			}
		}
	}
	return out
}

func propName(q *Payload, id int) string {
	if q.srcNode >= 0 {
		return "wire proposal"
	}
	if q.body.(*prepReq).nonce&0xf0 == 0xA0 {
		return "proposal A"
	}
	return "proposal B"
}

// runScript executes the scripted (cost-0) sends of a base scenario.
func (b *byzState) runScript() {
	for _, st := range b.w.sc.ByzScript {
		done := false
		for _, id := range b.ids {
			for _, it := range b.items(id) {
				if it.desc == st.Item && int(it.p.view) == st.View {
					b.sent[[2]uint64{uint64(it.p.Hash()), uint64(st.Mask)}] = true
					var dsts []int
					for _, n := range b.w.nodes {
						if uint64(st.Mask)&(1<<n.id) != 0 {
							dsts = append(dsts, n.id)
						}
					}
					b.w.inject(it.p, dsts)
					done = true
					break
				}
			}
		}
		if !done {
			panic(harnessFault{"byzantine script item not available: " + st.Item})
		}
	}
}

func (b *byzState) dstMasks(id int) []uint64 {
	var honest []int
	for _, n := range b.w.nodes {
		if n.live() && n.id != id {
			honest = append(honest, n.id)
		}
	}
	var all uint64
	for _, x := range honest {
		all |= 1 << x
	}
	masks := []uint64{all}
	if len(honest) > 1 {
		for _, x := range honest {
			masks = append(masks, 1<<x)
		}
	}
	if b.Pair && len(honest) > 2 {
		for i := range honest {
			for j := i + 1; j < len(honest); j++ {
				masks = append(masks, 1<<honest[i]|1<<honest[j])
			}
		}
	}
	return masks
}

func (b *byzState) menu() []Event {
	var evs []Event
	for _, id := range b.ids {
		items := b.items(id)
		masks := b.dstMasks(id)
		for _, it := range items {
			for _, m := range masks {
				if b.sent[[2]uint64{uint64(it.p.Hash()), m}] {
					continue
				}
				evs = append(evs, Event{K: "byz", N: id, P: it.p.Hash(), A: int(m), Cost: 1})
			}
		}
	}
	return evs
}

func (b *byzState) describe(e Event) string {
	for _, it := range b.items(e.N) {
		if it.p.Hash() == e.P {
			return fmt.Sprintf("byz n%d sends %s [%s] to mask %b", e.N, it.p, it.desc, e.A)
		}
	}
	return e.String()
}

func (b *byzState) apply(e Event) {
	for _, it := range b.items(e.N) {
		if it.p.Hash() == e.P {
			b.sent[[2]uint64{uint64(e.P), uint64(e.A)}] = true
			var dsts []int
			for _, n := range b.w.nodes {
				if uint64(e.A)&(1<<n.id) != 0 {
					dsts = append(dsts, n.id)
				}
			}
			b.w.inject(it.p, dsts)
			return
		}
	}
	panic(harnessFault{"replay divergence: byzantine menu item not available: " + e.String()})
}
