package main

// E2: open-environment exploration of ONE real node X. At each step the
// environment may hand X any element of a finite alphabet built from small
// value domains (unconstrained: the node-local monitors must hold whatever the
// peers send), or fire its timer, supply a requested transaction, let the
// application Reset/Sync. Breadth-first over (fingerprint of X, environment
// record) until the frontier empties or a cap is reached.

import (
	"fmt"
	"slices"

	"github.com/nspcc-dev/dbft"
)

// E2Spec selects the alphabet stratum.
type E2Spec struct {
	X          int    `json:"x"`           // index of the real node
	Views      int    `json:"views"`       // views 0..Views-1 get symbols
	Peers      []int  `json:"peers"`       // peers that send responses/commits/CVs (default: all others)
	Proposals  string `json:"proposals"`   // "", "A", "AB"
	OwnIndexProps bool `json:"own_index_props"` // proposals carrying X's own validator index (an active twin with the same key, or X's own earlier life before a restart)
	WrongPrim  bool   `json:"wrong_prim"`  // a proposal from a non-primary
	WrongPrimAll bool `json:"wrong_prim_all"` // ... from every non-primary index
	Responses  string `json:"responses"`   // "", "A", "AB", "ABX" (X = bogus hash); "O" adds responses naming X's own proposal
	Commits    string `json:"commits"`     // subset of "ABG" + "O" (valid for X's own proposal)
	PreCommits string `json:"precommits"`  // same for pre-commits
	CVs        int    `json:"cvs"`         // 0 none, 1 newView=v+1, 2 also v+2
	CVViews    int    `json:"cv_views"`    // change views only for views < CVViews (0 = all)
	RespPeers  int    `json:"resp_peers"`  // responses/commits only from the first RespPeers peers (0 = all)
	PoolFirst  bool   `json:"pool_first"`  // a requested transaction may enter the pool before OnTransaction is called
	NotifyFirst bool  `json:"notify_first"` // OnTransaction is called before GetTx can serve the transaction
	ForeignTx  bool   `json:"foreign_tx"` // while a transaction request is outstanding the application may also hand over transactions nobody asked for
	WatchFlip  bool   `json:"watch_flip"` // the WatchOnly callback of the (so far active) validator starts answering true at an arbitrary moment
	Once       bool   `json:"once"`       // every payload is delivered at most once (saturation strata: all orders of one fixed message set)
	RecReq     bool   `json:"rec_req"`
	Bundles    bool   `json:"bundles"`
	NextHeight bool   `json:"next_height"` // payloads of height h+1 (cache)
	OldHeight  bool   `json:"old_height"`
	BadIndex   bool   `json:"bad_index"`  // a payload with validator index >= N
	Stale      bool   `json:"stale"`      // stale timeouts
	Skip       bool   `json:"skip"`       // ledger jumps two heights (sync), then Reset
	LedgerFirst bool  `json:"ledger_first"` // the ledger advances by one block obtained elsewhere; the application calls Reset later (an event), consensus traffic of the old height may still arrive in between
	Skip1      bool   `json:"skip1"`      // ledger advances one height by sync (block obtained elsewhere), then Reset
	NoTimeout  bool   `json:"no_timeout"` // timer events excluded
	TxB        []H    `json:"tx_b"`       // transactions of proposal B (default [102 103])
	TxA        []H    `json:"tx_a"`       // transactions of proposal A (default [101])
	TxA1       []H    `json:"tx_a1"`      // transactions of proposal A in odd views (default [103])
	MaxDepth   int    `json:"max_depth"`
	StateCap   int    `json:"state_cap"`
	Heights    int    `json:"heights"`
}

type e2sym struct {
	name string
	mk   func(w *World) *Payload // nil result: not available now
}

type e2env struct {
	syms []e2sym
}

func (w *World) e2X() *Node { return w.nodes[w.sc.E2.X] }

// buildE2 constructs the alphabet for heights h=StartHeight+1 (and h+1 where asked).
func buildE2(w *World) *e2env {
	sc, sp := w.sc, w.sc.E2
	env := &e2env{}
	add := func(name string, mk func(w *World) *Payload) { env.syms = append(env.syms, e2sym{name, mk}) }
	fixed := func(name string, p *Payload) { p.Hash(); add(name, func(*World) *Payload { return p }) }
	h0 := sc.StartHeight + 1
	envTS := uint64(w.now.UnixNano()) + 1 // timestamps chosen by the environment are relative to the scenario's epoch
	txFor := func(kind byte, v byte) []H {
		// proposals of different views carry different transactions (A: 101 / 103, B: 102+103 / 101+102)
		switch {
		case kind == 'A' && v%2 == 1 && sp.TxA1 != nil:
			return sp.TxA1
		case kind == 'A' && sp.TxA != nil:
			return sp.TxA
		case kind == 'B' && sp.TxB != nil:
			return sp.TxB
		case kind == 'A' && v%2 == 0:
			return []H{101}
		case kind == 'A':
			return []H{103}
		case v%2 == 0:
			return []H{102, 103}
		}
		return []H{101, 102}
	}
	genesis := func(h uint32) (H, uint64) {
		// tip hash and timestamp X will have at height h-1 (only exact for h0; later heights use what X decided)
		return H(0xabc0 + uint64(sc.StartHeight)), uint64(w.now.UnixNano()) - uint64(sc.TimePerBlock)
	}
	heights := []uint32{h0}
	if sp.NextHeight {
		heights = append(heights, h0+1, h0+2)
	}
	for _, h := range heights {
		vals := sc.validatorsAt(h)
		n := len(vals)
		x := slices.Index(vals, sp.X)
		peers := sp.Peers
		if peers == nil {
			for i := 0; i < n; i++ {
				if i != x {
					peers = append(peers, i)
				}
			}
		}
		views := sp.Views
		if h != h0 {
			views = 1
		}
		if h == h0+2 && len(peers) > 1 {
			peers = peers[:1]
		}
		amev := sc.AMEV >= 0 && uint32(sc.AMEV) <= h
		for v := byte(0); int(v) < views; v++ {
			v := v
			mk := func(t dbft.MessageType, idx int, body any) *Payload {
				return &Payload{typ: t, height: h, view: v, idx: uint16(idx), body: body}
			}
			prim := primaryAt(h, v, n)
			_, prevTS := genesis(h)
			ts := prevTS + sc.TSIncrement
			props := map[byte]*Payload{}
			if prim != x || sp.OwnIndexProps {
				if len(sp.Proposals) >= 1 {
					props['A'] = mk(dbft.PrepareRequestType, prim, &prepReq{ts: ts, nonce: 0xA0 + uint64(v), txs: txFor('A', v)})
				}
				if len(sp.Proposals) >= 2 {
					props['B'] = mk(dbft.PrepareRequestType, prim, &prepReq{ts: ts, nonce: 0xB0 + uint64(v), txs: txFor('B', v)})
				}
				for _, k := range []byte{'A', 'B'} {
					if p := props[k]; p != nil {
						fixed(fmt.Sprintf("h%d v%d proposal %c from primary %d", h, v, k, prim), p)
					}
				}
			}
			if sp.WrongPrim && h == h0 {
				wp := (prim + 1) % n
				if wp == x {
					wp = (wp + 1) % n
				}
				if wp != prim {
					fixed(fmt.Sprintf("h%d v%d proposal from non-primary %d", h, v, wp), mk(dbft.PrepareRequestType, wp, &prepReq{ts: ts, nonce: 0xC0, txs: txFor('A', v)}))
				}
				if sp.WrongPrimAll {
					for o := 0; o < n; o++ {
						if o != prim && o != x && o != wp {
							fixed(fmt.Sprintf("h%d v%d proposal from non-primary %d", h, v, o), mk(dbft.PrepareRequestType, o, &prepReq{ts: ts, nonce: 0xC0 + uint64(o), txs: txFor('A', v)}))
						}
					}
				}
			}
			blockOf := func(p *Payload, own bool) func(w *World) ([2]H, bool) {
				return func(w *World) ([2]H, bool) {
					xn := w.e2X()
					if xn.height+1 != h {
						return [2]H{}, false
					}
					var r *prepReq
					if own {
						q, ok := ownProposal(w, h, v)
						if !ok {
							return [2]H{}, false
						}
						r = q.body.(*prepReq)
					} else {
						r = p.body.(*prepReq)
					}
					return [2]H{blockHash(h, xn.tip, r.ts, r.nonce, r.txs), preDataHash(h, xn.tip, r.ts, r.nonce, r.txs)}, true
				}
			}
			for pi, i := range peers {
				i := i
				limited := sp.RespPeers > 0 && pi >= sp.RespPeers
				if i != prim && !limited {
					for _, k := range sp.Responses {
						switch k {
						case 'A', 'B':
							if p := props[byte(k)]; p != nil {
								fixed(fmt.Sprintf("h%d v%d response %c from %d", h, v, k, i), mk(dbft.PrepareResponseType, i, &prepResp{p.Hash()}))
							}
						case 'X':
							if i == x {
								continue // nobody can forge X's own payloads
							}
							fixed(fmt.Sprintf("h%d v%d response for unknown hash from %d", h, v, i), mk(dbft.PrepareResponseType, i, &prepResp{H(0xbad0)}))
						case 'O':
							if prim == x {
								add(fmt.Sprintf("h%d v%d response naming X's own proposal from %d", h, v, i), func(w *World) *Payload {
									q, ok := ownProposal(w, h, v)
									if !ok {
										return nil
									}
									return mk(dbft.PrepareResponseType, i, &prepResp{q.Hash()})
								})
							}
						}
					}
				}
				sigs := func(kinds string, kind byte, t dbft.MessageType, body func(sig []byte) any, label string) {
					for _, k := range kinds {
						k := k
						switch k {
						case 'W':
							// fits proposal A, but the application's payload verifier refuses it (bad witness)
							p := props['A']
							if p == nil || i == x {
								continue
							}
							bf := blockOf(p, false)
							add(fmt.Sprintf("h%d v%d %s for A with a bad witness from %d", h, v, label, i), func(w *World) *Payload {
								hs, ok := bf(w)
								if !ok {
									return nil
								}
								bh := hs[0]
								if kind == 'P' {
									bh = hs[1]
								}
								q := mk(t, i, body(mkSig(kind, vals[i], bh)))
								q.badWitness = true
								return q
							})
						case 'A', 'B':
							p := props[byte(k)]
							if p == nil {
								continue
							}
							bf := blockOf(p, false)
							add(fmt.Sprintf("h%d v%d %s valid for %c from %d", h, v, label, k, i), func(w *World) *Payload {
								hs, ok := bf(w)
								if !ok {
									return nil
								}
								bh := hs[0]
								if kind == 'P' {
									bh = hs[1]
								}
								return mk(t, i, body(mkSig(kind, vals[i], bh)))
							})
						case 'G':
							if i == x && !w.nodes[sp.X].kind.watch() {
								continue // nobody can forge a validator's own payloads (a watch-only stand-by's twin may be Byzantine)
							}
							fixed(fmt.Sprintf("h%d v%d garbage %s from %d", h, v, label, i), mk(t, i, body(mkSig(kind, vals[i], H(0xdead)))))
						case 'O':
							if prim != x {
								continue
							}
							bf := blockOf(nil, true)
							add(fmt.Sprintf("h%d v%d %s valid for X's own proposal from %d", h, v, label, i), func(w *World) *Payload {
								hs, ok := bf(w)
								if !ok {
									return nil
								}
								bh := hs[0]
								if kind == 'P' {
									bh = hs[1]
								}
								return mk(t, i, body(mkSig(kind, vals[i], bh)))
							})
						}
					}
				}
				if !limited {
					sigs(sp.Commits, 'B', dbft.CommitType, func(s []byte) any { return &commitBody{s} }, "commit")
				}
				if (amev || sp.PreCommits != "") && !limited {
					sigs(sp.PreCommits, 'P', dbft.PreCommitType, func(s []byte) any { return &preCommitBody{s} }, "precommit")
				}
				if sp.CVs >= 1 && (sp.CVViews == 0 || int(v) < sp.CVViews) {
					fixed(fmt.Sprintf("h%d v%d change view to %d from %d", h, v, v+1, i), mk(dbft.ChangeViewType, i, &changeView{newView: v + 1, reason: dbft.CVTimeout, ts: envTS}))
				}
				if sp.CVs >= 2 {
					fixed(fmt.Sprintf("h%d v%d change view to %d from %d", h, v, v+2, i), mk(dbft.ChangeViewType, i, &changeView{newView: v + 2, reason: dbft.CVTimeout, ts: envTS}))
				}
				if sp.RecReq && h == h0 {
					fixed(fmt.Sprintf("h%d v%d recovery request from %d", h, v, i), mk(dbft.RecoveryRequestType, i, &recReq{ts: envTS}))
				}
			}
			if sp.Bundles && h == h0 {
				sender := peers[0]
				// R1: change views that justify view v
				if v > 0 {
					rm := &recMsg{}
					for _, i := range peers {
						rm.AddPayload(&Payload{typ: dbft.ChangeViewType, height: h, view: v - 1, idx: uint16(i), body: &changeView{newView: v, reason: dbft.CVTimeout, ts: envTS}})
					}
					fixed(fmt.Sprintf("h%d v%d recovery bundle: %d change views for view %d", h, v, len(peers), v), mk(dbft.RecoveryMessageType, sender, rm))
				}
				if int(v) == views-1 {
					// a (Byzantine or far-ahead) peer's recovery message for a view above every view of the alphabet
					fixed(fmt.Sprintf("h%d v%d recovery bundle: empty, from view %d", h, v, v+1), mk(dbft.RecoveryMessageType, sender, &recMsg{}).withView(v+1))
				}
				if p := props['A']; p != nil {
					rm := &recMsg{}
					rm.AddPayload(p)
					for _, i := range peers {
						if i != prim {
							rm.AddPayload(mk(dbft.PrepareResponseType, i, &prepResp{p.Hash()}))
						}
					}
					fixed(fmt.Sprintf("h%d v%d recovery bundle: proposal A + responses", h, v), mk(dbft.RecoveryMessageType, sender, rm))
					bf := blockOf(p, false)
					add(fmt.Sprintf("h%d v%d recovery bundle: proposal A + responses + commits", h, v), func(w *World) *Payload {
						hs, ok := bf(w)
						if !ok {
							return nil
						}
						bh, ph := hs[0], hs[1]
						r2 := &recMsg{}
						r2.AddPayload(p)
						for _, i := range peers {
							if i != prim {
								r2.AddPayload(mk(dbft.PrepareResponseType, i, &prepResp{p.Hash()}))
							}
						}
						for _, i := range peers {
							if amev {
								r2.AddPayload(mk(dbft.PreCommitType, i, &preCommitBody{mkSig('P', vals[i], ph)}))
							}
							r2.AddPayload(mk(dbft.CommitType, i, &commitBody{mkSig('B', vals[i], bh)}))
						}
						return mk(dbft.RecoveryMessageType, sender, r2)
					})
				}
			}
			if sp.BadIndex && h == h0 && v == 0 {
				fixed(fmt.Sprintf("h%d v%d change view from out-of-range index %d", h, v, n), mk(dbft.ChangeViewType, n, &changeView{newView: 1, reason: dbft.CVTimeout, ts: envTS}))
				fixed(fmt.Sprintf("h%d v%d commit from out-of-range index %d", h, v, n+3), mk(dbft.CommitType, n+3, &commitBody{mkSig('B', 99, H(1))}))
			}
		}
	}
	if sp.NextHeight {
		// the validator list shrinks at the next height: payloads for that height from an index that is valid in the
		// current list but past the end of the next one (they pass today's index check and sit in the cache until Reset)
		n0, n1 := len(sc.validatorsAt(h0)), len(sc.validatorsAt(h0+1))
		if n0 > n1 {
			idx := n0 - 1
			fixed(fmt.Sprintf("h%d commit from index %d (out of range at that height)", h0+1, idx), &Payload{typ: dbft.CommitType, height: h0 + 1, view: 0, idx: uint16(idx), body: &commitBody{mkSig('B', idx, H(0xdead))}})
			fixed(fmt.Sprintf("h%d change view from index %d (out of range at that height)", h0+1, idx), &Payload{typ: dbft.ChangeViewType, height: h0 + 1, view: 0, idx: uint16(idx), body: &changeView{newView: 1, reason: dbft.CVTimeout, ts: envTS}})
			fixed(fmt.Sprintf("h%d response from index %d (out of range at that height)", h0+1, idx), &Payload{typ: dbft.PrepareResponseType, height: h0 + 1, view: 0, idx: uint16(idx), body: &prepResp{H(0xbad1)}})
		}
	}
	if sp.OldHeight {
		for _, i := range []int{0, 1} {
			if i == slices.Index(sc.validatorsAt(h0), sp.X) {
				continue
			}
			fixed(fmt.Sprintf("old height commit from %d", i), &Payload{typ: dbft.CommitType, height: h0 - 1, view: 0, idx: uint16(i), body: &commitBody{mkSig('B', i, H(7))}})
			fixed(fmt.Sprintf("old height change view from %d", i), &Payload{typ: dbft.ChangeViewType, height: h0 - 1, view: 0, idx: uint16(i), body: &changeView{newView: 1, ts: envTS}})
			break
		}
	}
	return env
}

// ownProposal returns X's own PrepareRequest for (h, v) if it has broadcast one.
func ownProposal(w *World, h uint32, v byte) (*Payload, bool) {
	for _, p := range w.wire {
		if p.typ == dbft.PrepareRequestType && p.height == h && p.view == v && p.srcNode == w.sc.E2.X {
			return p, true
		}
	}
	return nil, false
}

// e2Enabled lists the environment's choices (all cost 0: unbounded search).
func (w *World) e2Enabled() []Event {
	sc, sp := w.sc, w.sc.E2
	x := w.e2X()
	if x.height >= sc.target() || w.steps >= sc.MaxDepth || x.crashed {
		return nil
	}
	var evs []Event
	if x.pendingReset {
		evs = append(evs, Event{K: "reset", N: x.id})
	}
	if m := x.m; m != nil && m.reqActive && m.height == x.d.BlockIndex {
		var hs []H
		for h := range m.requested {
			hs = append(hs, h)
		}
		slices.Sort(hs)
		for _, h := range hs {
			evs = append(evs, Event{K: "tx", N: x.id, P: h})
			if sp.PoolFirst && !x.known[h] {
				// the transaction reaches the application's pool (GetTx serves it) before the notification is delivered
				evs = append(evs, Event{K: "txpool", N: x.id, P: h})
			}
		}
	}
	if sp.ForeignTx && (x.m == nil || !x.m.reqActive) && !x.pendingReset && !x.foreignEarly {
		// ... also before any proposal is known (once)
		evs = append(evs, Event{K: "tx", N: x.id, P: 0x7777, A: 1})
	}
	if m := x.m; sp.ForeignTx && m != nil && m.reqActive && m.height == x.d.BlockIndex {
		for _, h := range []H{0x7777, 106} {
			if !m.requested[h] {
				evs = append(evs, Event{K: "tx", N: x.id, P: h})
			}
		}
	}
	if sp.WatchFlip && !x.watchNow && x.kind == kHonest && !x.pendingReset {
		evs = append(evs, Event{K: "watch", N: x.id})
	}
	if !sp.NoTimeout && x.wantsTimer() {
		evs = append(evs, Event{K: "timeout", N: x.id})
	}
	if !x.isValidator() && !x.pendingReset {
		c := x.ctx()
		evs = append(evs, Event{K: "stale", N: x.id, A: int(c.BlockIndex), B: int(c.ViewNumber)})
	}
	if sp.Stale && x.isValidator() {
		c := x.ctx()
		if c.ViewNumber > 0 {
			evs = append(evs, Event{K: "stale", N: x.id, A: int(c.BlockIndex), B: int(c.ViewNumber) - 1})
		}
		evs = append(evs, Event{K: "stale", N: x.id, A: int(c.BlockIndex) - 1, B: 0}, Event{K: "stale", N: x.id, A: int(c.BlockIndex), B: int(c.ViewNumber) + 1})
	}
	if sp.Skip && !x.pendingReset && w.skips < 1 {
		evs = append(evs, Event{K: "skip", N: x.id})
	}
	if sp.LedgerFirst && !x.pendingReset && w.skips < 1 {
		evs = append(evs, Event{K: "skip", N: x.id, A: 2})
	}
	if sp.Skip1 && !x.pendingReset && w.skips < 1 {
		evs = append(evs, Event{K: "skip", N: x.id, A: 1})
	}
	for i, s := range w.e2.syms {
		if p := s.mk(w); p != nil {
			if sp.Once {
				if _, got := w.got[x.id][p.Hash()]; got {
					continue
				}
			}
			evs = append(evs, Event{K: "inj", N: x.id, A: i})
		}
	}
	return evs
}

func (w *World) e2Apply(e Event) {
	x := w.e2X()
	s := w.e2.syms[e.A]
	p := s.mk(w)
	if p == nil {
		panic(harnessFault{"replay divergence: symbol not available: " + s.name})
	}
	p.Hash()
	// environment payloads are scripted, whatever validator index they carry (srcNode is harness bookkeeping only)
	p.srcNode = -1
	if rm, ok := p.body.(*recMsg); ok {
		for _, e := range rm.payloads {
			e.srcNode = -1
		}
	}
	if w.logOn {
		w.logf("== env hands X: %s [%s]", p, s.name)
	}
	w.got[x.id][p.Hash()] = p
	x.Receive(p)
}
