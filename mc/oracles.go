package main

// World-level oracles that are specific to one property (enabled by Scenario.Oracle).

import (
	"fmt"

	"github.com/nspcc-dev/dbft"
)

func (w *World) oracleBroadcast(n *Node, p *Payload) {
	sc := w.sc
	switch sc.Oracle {
	case "C08":
		if p.typ == dbft.ChangeViewType || p.typ == dbft.RecoveryRequestType {
			w.violate("C08", "C08/"+typeShort[p.typ]+"-in-fault-free-synchronous-run", n, "fault-free synchronous run, yet node broadcast "+p.String())
		}
	case "C16":
		if p.typ == dbft.ChangeViewType || p.typ == dbft.RecoveryRequestType {
			w.violate("C16", "C16/"+typeShort[p.typ]+"-on-idle-chain", n, "fault-free synchronous network with dynamic block time, yet node broadcast "+p.String())
		}
		if p.typ == dbft.PrepareRequestType {
			now := w.now
			ntx := len(p.body.(*prepReq).txs)
			if w.proposals > 0 {
				gap := now.Sub(w.lastProposal)
				if gap < sc.TimePerBlock {
					w.violate("C16", "C16/proposals-closer-than-min", n, fmt.Sprintf("proposal %v after the previous one, minimum block time %v", gap, sc.TimePerBlock))
				}
				if ntx == 0 {
					w.stats.Antecedents["empty-proposal"]++
				}
				if ntx == 0 && sc.MaxTimePerBlock > 0 && gap < sc.MaxTimePerBlock {
					w.violate("C16", "C16/empty-proposal-before-max", n, fmt.Sprintf("empty proposal %v after the previous one, maximum block time %v", gap, sc.MaxTimePerBlock))
				}
			}
			if w.newTxPending && ntx > 0 {
				w.newTxPending = false
			}
			w.lastProposal = now
			w.proposals++
		}
	}
}

// oracleAfterEvent runs after every event.
func (w *World) oracleAfterEvent(e Event) {
	sc := w.sc
	if sc.Oracle == "C16" {
		for _, n := range w.nodes {
			if sc.MaxTimePerBlock == 0 && n.subscribes > 0 {
				w.violate("C16", "C16/subscribe-without-extension", n, "SubscribeForTxs called although MaxTimePerBlock is not configured")
			}
		}
		// a new-transaction notification during the extended wait must produce a proposal in the same instant:
		// checked when virtual time moves on while the transaction is still unproposed and the primary was waiting
		if w.newTxPending && w.now.After(w.lastNewTx) && w.extendedWaitAtNewTx {
			w.violate("C16", "C16/no-prompt-proposal-after-new-transaction", nil, fmt.Sprintf("transaction appeared at +%v during the extended wait, no proposal in that instant", w.lastNewTx.Sub(w.start)))
			w.newTxPending = false
		}
	}
}
