package main

import (
	"bytes"
	"crypto/rand"
	"encoding/json"
	"fmt"
	"os"
	"os/exec"
	"runtime"
	"runtime/pprof"
	"slices"
	"sort"
	"strconv"
	"strings"
	"sync"
	"time"

	"github.com/nspcc-dev/dbft"
)

// detReader replaces crypto/rand.Reader: nonces are a function of
// (node, incarnation, height, view), so replays are bit-identical.
type detReader struct{}

func (detReader) Read(b []byte) (int, error) {
	s := newHasher()
	if w := curWorld; w != nil && w.cur != nil {
		n := w.cur
		s.u64(uint64(n.id))
		s.u64(uint64(n.incarnation))
		s.u64(uint64(n.d.BlockIndex))
		s.u64(uint64(n.d.ViewNumber))
	}
	x := s.sum()
	for i := range b {
		b[i] = byte(x >> (8 * (i % 8)))
	}
	return len(b), nil
}

func init() {
	rand.Reader = detReader{}
	dbft.VerifReplayOrder = func(cat int, idx []uint16) []uint16 {
		w := curWorld
		if w == nil || w.cur == nil || len(idx) < 2 {
			return idx
		}
		switch w.cur.permMode {
		case 1:
			r := slices.Clone(idx)
			slices.Reverse(r)
			return r
		case 2:
			return append(slices.Clone(idx[1:]), idx[0])
		}
		return idx
	}
}

// Job is one unit of work for a worker process.
type Job struct {
	Kind     string    `json:"kind"` // explore | custom name
	Scenario *Scenario `json:"scenario"`
	BudgetS  int       `json:"budget_s"`
	Args     map[string]int `json:"args,omitempty"`
	Prop     string         `json:"prop,omitempty"`
}

func verifDir() string {
	if d := os.Getenv("VERIF_HOME"); d != "" {
		return d
	}
	return "/verif"
}

// outDir is where evidence and replay files go (VERIF_OUT overrides it for runs against scratch trees).
func outDir() string {
	if d := os.Getenv("VERIF_OUT"); d != "" {
		return d
	}
	return verifDir()
}

func repoDir() string {
	if d := os.Getenv("VERIF_REPO"); d != "" {
		return d
	}
	return "/repo"
}

func main() {
	if len(os.Args) < 2 {
		fmt.Fprintln(os.Stderr, "usage: verifmc check <ID> [--tier quick|thorough] | replay <file> | worker")
		os.Exit(2)
	}
	defer func() {
		if r := recover(); r != nil {
			if hf, ok := r.(harnessFault); ok {
				fmt.Fprintln(os.Stderr, "HARNESS FAULT:", hf.msg)
				os.Exit(2)
			}
			panic(r)
		}
	}()
	switch os.Args[1] {
	case "worker":
		workerMain()
	case "check":
		tier := os.Getenv("VERIF_TIER")
		id := ""
		for i := 2; i < len(os.Args); i++ {
			switch os.Args[i] {
			case "--tier":
				i++
				tier = os.Args[i]
			default:
				id = os.Args[i]
			}
		}
		if tier == "" {
			tier = "quick"
		}
		os.Exit(checkMain(id, tier))
	case "replay":
		os.Exit(replayMain(os.Args[2]))
	case "dbgfind":
		// debugging aid: run job <idx> of check <id> and print the trace of every finding whose key contains <substr>
		idx, _ := strconv.Atoi(os.Args[3])
		j := checks[os.Args[2]].Jobs("quick")[idx]
		j.Scenario.finish()
		j.BudgetS = 60
		r := runJob(j)
		for i := range r.Found {
			f := &r.Found[i]
			if len(os.Args) > 4 && !strings.Contains(f.Key, os.Args[4]) {
				continue
			}
			n, tr := confirm(f, 2)
			fmt.Println("=====", f.Prop, f.Key, f.Msg, "confirmed", n)
			for _, l := range tr {
				if !strings.Contains(l, "Timer.") {
					fmt.Println(l)
				}
			}
		}
	case "e2path":
		// debugging aid: e2path <check> <jobidx> <step>... ; step = "timeout" | "tx" | substring of a symbol name
		idx, _ := strconv.Atoi(os.Args[3])
		sc := checks[os.Args[2]].Jobs("quick")[idx].Scenario.finish()
		w := newWorldLogged(sc)
		for _, st := range os.Args[4:] {
			evs := w.enabled()
			done := false
			for _, e := range evs {
				d := w.describe(e)
				if (e.K == st && !(st == "skip" && e.A == 1)) || (st == "skip1" && e.K == "skip" && e.A == 1) || (e.K == "inj" && strings.Contains(d, st)) {
					w.apply(e)
					done = true
					break
				}
			}
			if !done {
				fmt.Println("!! step not enabled:", st)
				for _, e := range evs {
					fmt.Println("     ", w.describe(e))
				}
				break
			}
		}
		if sc.Twin {
			w.twinCheck(map[string]int{})
		}
		for _, l := range w.log {
			fmt.Println(l)
		}
		fmt.Println(w.viol)
	case "dumpjob":
		// debugging aid: print job <idx> of check <id> as JSON
		idx, _ := strconv.Atoi(os.Args[3])
		tier := "quick"
		if len(os.Args) > 4 {
			tier = os.Args[4]
		}
		b, _ := json.Marshal(checks[os.Args[2]].Jobs(tier)[idx])
		fmt.Println(string(b))
	case "trace":
		// debugging aid: print the default path of a named scenario
		traceMain(os.Args[2:])
	default:
		fmt.Fprintln(os.Stderr, "unknown command", os.Args[1])
		os.Exit(2)
	}
}

func workerMain() {
	if pf := os.Getenv("VERIF_PROF"); pf != "" {
		f, _ := os.Create(pf)
		pprof.StartCPUProfile(f)
		defer pprof.StopCPUProfile()
	}
	var job Job
	if err := json.NewDecoder(os.Stdin).Decode(&job); err != nil {
		fmt.Fprintln(os.Stderr, "bad job:", err)
		os.Exit(2)
	}
	job.Scenario.finish()
	res := runJob(&job)
	enc := json.NewEncoder(os.Stdout)
	if err := enc.Encode(res); err != nil {
		fmt.Fprintln(os.Stderr, "encode:", err)
		os.Exit(2)
	}
}

func runJob(job *Job) *Result {
	budget := time.Duration(job.BudgetS) * time.Second
	if fn, ok := customJobs[job.Kind]; ok {
		return fn(job, budget)
	}
	x := newExplorer(job.Scenario, budget)
	x.prop = job.Prop
	if job.Scenario.Sweep && job.Scenario.E2 != nil {
		x.onState = x.sweepState
	}
	if job.Scenario.Twin && job.Scenario.E2 != nil {
		x.onState = x.twinState
		// the twin oracles depend on the history (which payloads were handed over early), not only on the state
		// reached: a re-initialisation that forgets something lands in an already known state
		x.onEdge = x.twinState
	}
	return x.run()
}

var customJobs = map[string]func(*Job, time.Duration) *Result{}

// runJobs runs jobs in worker subprocesses, at most par at a time.
func runJobs(jobs []*Job, par int, hard time.Time) []*Result {
	if par <= 0 {
		par = runtime.NumCPU()
		if p, _ := strconv.Atoi(os.Getenv("VERIF_PAR")); p > 0 {
			par = p
		}
	}
	res := make([]*Result, len(jobs))
	sem := make(chan struct{}, par)
	var wg sync.WaitGroup
	for i, j := range jobs {
		wg.Add(1)
		sem <- struct{}{}
		go func(i int, j *Job) {
			defer wg.Done()
			defer func() { <-sem }()
			if time.Now().After(hard) {
				res[i] = &Result{Scenario: j.Scenario.Name, Error: "skipped: tier deadline reached", Stats: newStats()}
				return
			}
			// fair share of what is left of the tier budget: (time left) x (parallel slots) / (jobs not yet started);
			// jobs that finish early leave their share to the later ones, so open-ended scenarios go last in a family
			left := time.Until(hard).Seconds()
			share := int(left * float64(par) / float64(len(jobs)-i))
			jj := *j
			if share < jj.BudgetS {
				jj.BudgetS = max(share, 3)
			}
			if jj.BudgetS > int(left) {
				jj.BudgetS = max(int(left), 1)
			}
			in, _ := json.Marshal(&jj)
			cmd := exec.Command(os.Args[0], "worker")
			cmd.Stdin = bytes.NewReader(in)
			cmd.Env = append(os.Environ(), "GOMAXPROCS=2", "GOGC=200")
			var out, errb bytes.Buffer
			cmd.Stdout, cmd.Stderr = &out, &errb
			err := cmd.Run()
			r := &Result{Stats: newStats()}
			if err != nil {
				r.Scenario = j.Scenario.Name
				r.Error = fmt.Sprintf("worker failed: %v: %s", err, tail(errb.String(), 2000))
			} else if e := json.Unmarshal(out.Bytes(), r); e != nil {
				r.Scenario = j.Scenario.Name
				r.Error = "bad worker output: " + e.Error() + ": " + tail(out.String(), 500)
			}
			res[i] = r
		}(i, j)
	}
	wg.Wait()
	return res
}

func tail(s string, n int) string {
	if len(s) > n {
		return s[len(s)-n:]
	}
	return s
}

// ------------------------------------------------------------ known findings

type KnownFindings struct {
	Open []struct {
		Property string `json:"property"`
		Key      string `json:"key"`
		What     string `json:"what"`
	} `json:"open"`
	Fixed []string `json:"fixed"`
}

func loadKnown() *KnownFindings {
	k := &KnownFindings{}
	b, err := os.ReadFile(verifDir() + "/known_findings.json")
	if err == nil {
		if e := json.Unmarshal(b, k); e != nil {
			fmt.Fprintln(os.Stderr, "known_findings.json:", e)
			os.Exit(2)
		}
	}
	return k
}

func (k *KnownFindings) open(prop, key string) (string, bool) {
	for _, o := range k.Open {
		if o.Property == prop && o.Key == key {
			return o.What, true
		}
	}
	return "", false
}

// ------------------------------------------------------------ evidence

type Evidence struct {
	PropertyID  string         `json:"property_id"`
	Tier        string         `json:"tier"`
	Seed        int            `json:"seed"`
	Level       string         `json:"level"`
	Coverage    map[string]any `json:"coverage"`
	Assumptions []string       `json:"assumptions"`
	WallS       float64        `json:"wall_s"`
	Violations  int            `json:"violations"`
}

func writeEvidence(ev *Evidence) {
	os.MkdirAll(outDir()+"/evidence", 0o755)
	b, _ := json.MarshalIndent(ev, "", " ")
	if err := os.WriteFile(outDir()+"/evidence/"+ev.PropertyID+".json", append(b, '\n'), 0o644); err != nil {
		fmt.Fprintln(os.Stderr, "evidence:", err)
		os.Exit(2)
	}
}

func seedEnv() int {
	s, _ := strconv.Atoi(os.Getenv("VERIF_SEED"))
	return s
}

// ------------------------------------------------------------ check driver

type CheckSpec struct {
	ID          string
	Level       string
	Jobs        func(tier string) []*Job
	TierBudget  func(tier string) time.Duration
	Assumptions []string
	Rule        string
	// Vacuity: returns a non-empty string if the aggregate shows the check exercised nothing
	Vacuous func(agg *Aggregate) string
	// Custom replaces the whole generic flow (non-E1 engines)
	Custom func(tier string) int
}

type Aggregate struct {
	States, Transitions, Replays, Validated, Terminal, Done, Stuck, MaxDepth int
	Exhaustive                                                             bool
	Stats                                                                  *Stats
	Results                                                                []*Result
	Extra                                                                  map[string]int
}

var checks = map[string]*CheckSpec{}

func checkMain(id, tier string) int {
	spec, ok := checks[id]
	if !ok {
		fmt.Fprintln(os.Stderr, "no such check:", id)
		return 2
	}
	if spec.Custom != nil {
		return spec.Custom(tier)
	}
	start := time.Now()
	jobs := spec.Jobs(tier)
	for _, j := range jobs {
		j.Prop = id
	}
	// open-ended scenarios last: they absorb whatever the quick ones leave of the tier budget
	weight := func(j *Job) int {
		sc, w := j.Scenario, 0
		if sc.Dev.Byz {
			w += 2
		}
		if sc.E2 != nil && sc.E2.Views > 1 {
			w += 2
		}
		if sc.E2 != nil {
			w++
		}
		if sc.Sweep || sc.Twin {
			w++
		}
		if sc.Mode == "all" || sc.Mode == "focus" {
			w += 2
		}
		if sc.K >= 3 {
			w++
		}
		return w
	}
	sort.SliceStable(jobs, func(a, b int) bool { return weight(jobs[a]) < weight(jobs[b]) })
	// VERIF_SEED only permutes scheduling order of the scenario families
	if s := seedEnv(); s != 0 && len(jobs) > 1 {
		r := s % len(jobs)
		jobs = append(jobs[r:], jobs[:r]...)
	}
	hard := start.Add(spec.TierBudget(tier))
	results := runJobs(jobs, 0, hard)
	agg := &Aggregate{Exhaustive: true, Stats: newStats(), Results: results, Extra: map[string]int{}}
	var found []Found
	var side []string
	var errs []string
	seenKey := map[string]bool{}
	for _, r := range results {
		if r.Error != "" {
			errs = append(errs, r.Scenario+": "+r.Error)
			agg.Exhaustive = false
			if !strings.HasPrefix(r.Error, "skipped") {
				fmt.Fprintln(os.Stderr, "ERROR", r.Scenario, r.Error)
			}
			continue
		}
		agg.States += r.States
		agg.Transitions += r.Transitions
		agg.Replays += r.Replays
		agg.Validated += r.Validated + r.Extra["copy_vs_replay_checks"]
		agg.Terminal += r.Terminal
		agg.Done += r.Done
		agg.Stuck += r.Stuck
		agg.MaxDepth = max(agg.MaxDepth, r.MaxDepth)
		if !r.Exhaustive {
			agg.Exhaustive = false
		}
		for k, v := range r.Stats.Decisions {
			agg.Stats.Decisions[k] += v
		}
		for k, v := range r.Stats.ViewsSeen {
			agg.Stats.ViewsSeen[k] += v
		}
		for k, v := range r.Stats.KindsSent {
			agg.Stats.KindsSent[k] += v
		}
		for k, v := range r.Stats.Antecedents {
			agg.Stats.Antecedents[k] += v
		}
		for k, v := range r.Extra {
			agg.Extra[k] += v
		}
		for _, f := range r.Found {
			if f.Prop != id {
				side = append(side, f.Prop+" "+f.Key+" in "+r.Scenario)
				continue
			}
			if seenKey[f.Key] {
				continue
			}
			seenKey[f.Key] = true
			found = append(found, f)
		}
	}
	hardErr := false
	for _, e := range errs {
		if !strings.Contains(e, "skipped") {
			hardErr = true
		}
	}
	known := loadKnown()
	exit := 0
	nviol := 0
	var lines []string
	for i := range found {
		f := &found[i]
		f.Scenario.finish()
		n, trace := confirm(f, 5)
		f.Confirmed = n
		f.Trace = trace
		agg.Validated += 5
		if n != 5 {
			fmt.Fprintf(os.Stderr, "HARNESS FAULT: violation %s reproduced %d/5 times\n", f.Key, n)
			hardErr = true
			continue
		}
		path := writeReplay(id, f)
		if what, ok := known.open(id, f.Key); ok {
			lines = append(lines, fmt.Sprintf("KNOWN-FINDING: property=%s %s [%s] replay=%s", id, what, f.Key, path))
			continue
		}
		nviol++
		exit = 1
		lines = append(lines, fmt.Sprintf("VIOLATION property=%s replay=%s", id, path))
		fmt.Fprintf(os.Stderr, "violation %s: %s (scenario %s, %d events)\n", f.Key, f.Msg, f.Scenario.Name, len(f.Path))
	}
	vac := ""
	if spec.Vacuous != nil && exit == 0 && !hardErr {
		vac = spec.Vacuous(agg)
	}
	// evidence
	var samples []any
	for _, r := range results {
		if len(r.Sample) > 0 && len(samples) < 3 {
			samples = append(samples, map[string]any{"scenario": r.Scenario, "default_path_log": r.Sample, "one_explored_path_with_deviations": r.Sample2})
		}
	}
	var per []map[string]any
	for i, r := range results {
		per = append(per, map[string]any{"scenario": r.Scenario, "mode": jobs[i].Scenario.Mode, "k": jobs[i].Scenario.K, "states": r.States, "transitions": r.Transitions,
			"max_depth": r.MaxDepth, "terminal": r.Terminal, "exhaustive_within_bound": r.Exhaustive, "wall_s": r.WallS, "error": r.Error})
	}
	ev := &Evidence{PropertyID: id, Tier: tier, Seed: seedEnv(), Level: spec.Level, Assumptions: spec.Assumptions,
		WallS: time.Since(start).Seconds(), Violations: nviol,
		Coverage: map[string]any{
			"states": agg.States, "transitions": agg.Transitions, "traces_validated_against_impl": agg.Validated,
			"replays_on_fresh_instances": agg.Replays, "samples": samples, "exhaustive": agg.Exhaustive,
			"max_depth": agg.MaxDepth, "terminal_states": agg.Terminal, "terminal_done": agg.Done, "terminal_stuck": agg.Stuck,
			"rule": spec.Rule, "scenarios": per, "distinct_decisions": agg.Stats.Decisions, "message_kinds_sent": agg.Stats.KindsSent,
			"antecedents": agg.Stats.Antecedents, "extra": agg.Extra, "side_findings_other_properties": side, "errors": errs,
			"known_findings_printed": lines, "vacuity": vac,
		}}
	writeEvidence(ev)
	sort.Strings(lines)
	for _, l := range lines {
		fmt.Println(l)
	}
	fmt.Printf("%s %s: scenarios=%d states=%d transitions=%d depth=%d exhaustive_within_bounds=%v violations=%d wall=%.1fs\n",
		id, tier, len(jobs), agg.States, agg.Transitions, agg.MaxDepth, agg.Exhaustive, nviol, time.Since(start).Seconds())
	if exit == 1 {
		return 1 // a confirmed violation is reported even if another scenario of the family could not be run
	}
	if hardErr {
		return 2
	}
	if vac != "" {
		fmt.Fprintln(os.Stderr, "VACUOUS:", vac)
		return 3
	}
	return exit
}

func writeReplay(id string, f *Found) string {
	os.MkdirAll(outDir()+"/replays", 0o755)
	b, _ := json.MarshalIndent(f, "", " ")
	name := fmt.Sprintf("%s/replays/%s-%08x.json", outDir(), id, uint32(fnvStr(f.Key+f.Scenario.Name)))
	os.WriteFile(name, append(b, '\n'), 0o644)
	return name
}

func replayMain(file string) int {
	b, err := os.ReadFile(file)
	if err != nil {
		fmt.Fprintln(os.Stderr, err)
		return 2
	}
	var f Found
	if err := json.Unmarshal(b, &f); err != nil {
		fmt.Fprintln(os.Stderr, err)
		return 2
	}
	if f.Scenario == nil {
		// enumerator / driver findings: the failing input is self-contained in the file
		fmt.Println(string(b))
		fmt.Printf("VIOLATION property=%s replay=%s\n  re-run ./check %s to re-evaluate this input\n", f.Prop, file, f.Prop)
		return 1
	}
	f.Scenario.finish()
	n, trace := confirm(&f, 2)
	for _, l := range trace {
		fmt.Println(l)
	}
	if n == 2 {
		fmt.Printf("VIOLATION property=%s replay=%s\n  %s: %s\n", f.Prop, file, f.Key, f.Msg)
		return 1
	}
	fmt.Printf("not reproduced (%d/2): %s\n", n, f.Key)
	return 0
}

func traceMain(args []string) {
	id, tier, idx := args[0], "quick", 0
	if len(args) > 1 {
		idx, _ = strconv.Atoi(args[1])
	}
	jobs := checks[id].Jobs(tier)
	sc := jobs[idx].Scenario.finish()
	fmt.Println("scenario", sc.Name, "of", len(jobs))
	w := newWorldLogged(sc)
	for {
		evs := w.enabled()
		if len(evs) == 0 || evs[0].Cost != 0 {
			fmt.Println("-- stop; enabled:", len(evs), "done:", w.done())
			break
		}
		w.apply(evs[0])
	}
	for _, l := range w.log {
		fmt.Println(l)
	}
	for _, v := range w.viol {
		fmt.Println("VIOL", v)
	}
}

func writeJSON(path string, v any) {
	os.MkdirAll(outDir()+"/replays", 0o755)
	b, _ := json.MarshalIndent(v, "", " ")
	os.WriteFile(path, append(b, '\n'), 0o644)
}

func logw() *os.File { return os.Stderr }
