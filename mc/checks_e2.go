package main

import (
	"fmt"
)

// e2scen builds an open-environment scenario: node x is real, everybody else is the environment.
func e2scen(name string, n, x int, amev int64, sp E2Spec, opts ...opt) *Scenario {
	sc := scen(name, n, opts...)
	sc.Mode = "e2"
	sc.AMEV = amev
	sc.Kinds = nil
	for i := 0; i < n; i++ {
		if i == x {
			sc.Kinds = append(sc.Kinds, kHonest)
		} else {
			sc.Kinds = append(sc.Kinds, kSilent)
		}
	}
	sp.X = x
	if sp.Views == 0 {
		sp.Views = 1
	}
	sc.E2 = &sp
	sc.MaxDepth = sp.MaxDepth
	if sc.MaxDepth == 0 {
		sc.MaxDepth = 12
	}
	if sp.Heights > 0 {
		sc.Heights = sp.Heights
	}
	sc.MaxView = byte(sp.Views)
	sc.Dev = Dev{}
	sc.TxPerBlock = 2
	if sc.Missing == nil {
		sc.Missing = map[int][]H{x: {103}}
	}
	if sc.BadTx == nil {
		sc.BadTx = map[int][]H{x: {102}}
	}
	return sc
}

// e2Family: strata of the open-environment exploration shared by the node-local properties.
func e2Family(tier string, amevs []int64) []*Job {
	var jobs []*Job
	per, cap1, cap2 := 120, 400_000, 1_500_000
	if tier == "thorough" {
		per, cap1, cap2 = 1800, 20_000_000, 40_000_000
	}
	h := uint32(5)
	for _, a := range amevs {
		an := amevName(a)
		pc := ""
		if a >= 0 {
			pc = "ABG"
		}
		prim0, prim1 := primaryAt(h, 0, 4), primaryAt(h, 1, 4)
		other := 0
		for other == prim0 || other == prim1 {
			other++
		}
		for _, x := range []int{other, prim1, prim0} {
			role := map[int]string{other: "backup", prim1: "primary-of-view1", prim0: "primary-of-view0"}[x]
			// one-view stratum: proposals A/B, responses, (pre)commits valid-A / valid-B / garbage, to exhaustion
			two := []int{}
			for i := 0; i < 4 && len(two) < 2; i++ {
				if i != x && i != prim0 {
					two = append(two, i)
				}
			}
			s1 := E2Spec{Views: 1, Proposals: "AB", Responses: "ABO", Commits: "ABGO", PreCommits: pc, MaxDepth: 14, StateCap: cap1, NoTimeout: false}
			if a >= 0 {
				// keep the one-view stratum exhaustible under anti-MEV: responses from two peers only
				s1.Peers = nil
				s1.Commits = "AGO"
				s1.PreCommits = "AGO"
				s1.Proposals = "A"
				s1.Responses = "AXO"
			}
			jobs = append(jobs, job(e2scen(fmt.Sprintf("E2-oneview-N4-x%d-%s-%s", x, role, an), 4, x, a, s1), per))
			// two-view stratum: view change traffic, recovery bundles, timeouts; capped
			s2 := E2Spec{Views: 2, Proposals: "A", Responses: "AO", Commits: "AGO", PreCommits: func() string {
				if a >= 0 {
					return "AG"
				}
				return ""
			}(), CVs: 1, Bundles: true, RecReq: false, MaxDepth: 12, StateCap: cap2}
			jobs = append(jobs, job(e2scen(fmt.Sprintf("E2-twoview-N4-x%d-%s-%s", x, role, an), 4, x, a, s2), per))
			if a >= 0 && x == other {
				fp := e2scen(fmt.Sprintf("E2-oneview-preblock-fails-once-N4-x%d-%s-%s", x, role, an), 4, x, a, s1)
				fp.FailPre = 1
				jobs = append(jobs, job(fp, per))
			}
		}
	}
	if tier == "thorough" {
		jobs = append(jobs, job(e2scen("E2-oneview-N7-x0-amev-off", 7, 0, -1, E2Spec{Views: 1, Proposals: "AB", Responses: "AB", Commits: "AG", MaxDepth: 14, StateCap: 20_000_000}), per))
	}
	return jobs
}
