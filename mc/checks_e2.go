package main

import (
	"fmt"
)

// e2scen builds an open-environment scenario: node x is real, everybody else is the environment.
func e2scen(name string, n, x int, amev int64, sp E2Spec, opts ...opt) *Scenario {
	sc := scen(name, n, opts...)
	sc.Mode = "e2"
	sc.AMEV = amev
	sc.Kinds = nil
	for i := 0; i < n; i++ {
		if i == x {
			sc.Kinds = append(sc.Kinds, kHonest)
		} else {
			sc.Kinds = append(sc.Kinds, kSilent)
		}
	}
	sp.X = x
	if sp.Views == 0 {
		sp.Views = 1
	}
	sc.E2 = &sp
	sc.MaxDepth = sp.MaxDepth
	if sc.MaxDepth == 0 {
		sc.MaxDepth = 12
	}
	if sp.Heights > 0 {
		sc.Heights = sp.Heights
	}
	sc.MaxView = byte(sp.Views)
	sc.Dev = Dev{}
	sc.TxPerBlock = 2
	if sc.Missing == nil {
		sc.Missing = map[int][]H{x: {103}}
	}
	if sc.BadTx == nil {
		sc.BadTx = map[int][]H{x: {102}}
	}
	return sc
}

// e2Family: strata of the open-environment exploration shared by the node-local properties.
func e2Family(tier string, amevs []int64) []*Job {
	var jobs []*Job
	per, cap1, cap2 := 120, 400_000, 1_500_000
	if tier == "thorough" {
		per, cap1, cap2 = 1800, 20_000_000, 40_000_000
	}
	h := uint32(5)
	for _, a := range amevs {
		an := amevName(a)
		pc := ""
		if a >= 0 {
			pc = "ABG"
		}
		prim0, prim1 := primaryAt(h, 0, 4), primaryAt(h, 1, 4)
		other := 0
		for other == prim0 || other == prim1 {
			other++
		}
		for _, x := range []int{other, prim1, prim0} {
			role := map[int]string{other: "backup", prim1: "primary-of-view1", prim0: "primary-of-view0"}[x]
			// one-view stratum: proposals A/B, responses, (pre)commits valid-A / valid-B / garbage, to exhaustion
			two := []int{}
			for i := 0; i < 4 && len(two) < 2; i++ {
				if i != x && i != prim0 {
					two = append(two, i)
				}
			}
			s1 := E2Spec{Views: 1, Proposals: "AB", WrongPrim: true, Responses: "ABO", Commits: "ABGO", PreCommits: pc, MaxDepth: 14, StateCap: cap1, NoTimeout: false}
			if a >= 0 {
				// keep the one-view stratum exhaustible under anti-MEV: responses from two peers only
				s1.Peers = nil
				s1.Commits = "AGO"
				s1.PreCommits = "AGO"
				s1.Proposals = "A"
				s1.Responses = "AXO"
			}
			jobs = append(jobs, job(e2scen(fmt.Sprintf("E2-oneview-N4-x%d-%s-%s", x, role, an), 4, x, a, s1), per))
			// two-view stratum: view change traffic, recovery bundles, timeouts; capped
			s2 := E2Spec{Views: 2, Proposals: "A", Responses: "AO", Commits: "AGO", PreCommits: func() string {
				if a >= 0 {
					return "AG"
				}
				return ""
			}(), CVs: 1, Bundles: true, RecReq: false, MaxDepth: 12, StateCap: cap2}
			jobs = append(jobs, job(e2scen(fmt.Sprintf("E2-twoview-N4-x%d-%s-%s", x, role, an), 4, x, a, s2), per))
			if a >= 0 {
				// pre-commit data bound to (height, transactions) only, as a decryption share would be, and the same
				// transactions proposed in both views: a pre-commit of view 0 then fits the pre-block of view 1, and only
				// the library's own view filter keeps it out of the view-1 quorum
				s2b := s2
				s2b.TxA, s2b.TxA1 = []H{101}, []H{101}
				s2b.Commits, s2b.Bundles = "A", false
				tb := e2scen(fmt.Sprintf("E2-twoview-txbound-precommits-N4-x%d-%s-%s", x, role, an), 4, x, a, s2b)
				tb.PreDataTxOnly = true
				jobs = append(jobs, job(tb, per))
			}
			if x == other {
				// a missing transaction reaches the pool (GetTx) before / instead of OnTransaction: the set is then
				// completed by processMissingTx inside a recovery request (found D15 this way)
				s3 := E2Spec{Views: 1, Proposals: "A", TxA: []H{103}, Responses: "A", Commits: "AGW", PreCommits: func() string {
					if a >= 0 {
						return "AGW"
					}
					return ""
				}(), PoolFirst: true, ForeignTx: true, MaxDepth: 10, StateCap: cap1}
				jobs = append(jobs, job(e2scen(fmt.Sprintf("E2-poolfirst-N4-x%d-%s-%s", x, role, an), 4, x, a, s3), per))
				// the same with a proposal whose completed block X's VerifyBlock rejects (102 is invalid for X): the
				// early (pre)commits must still be verified (found D17 this way)
				s4 := s3
				s4.TxA = []H{102, 103}
				jobs = append(jobs, job(e2scen(fmt.Sprintf("E2-poolfirst-rejected-block-N4-x%d-%s-%s", x, role, an), 4, x, a, s4), per))
			}
			if x == other {
				// the application's VerifyPrepareRequest refuses the second proposal of an equivocating primary: whatever the
				// library does with a refused proposal, it must respect what the node has already sent in that view
				s11 := E2Spec{Views: 1, Proposals: "AB", Responses: "A", Commits: "A", MaxDepth: 10, StateCap: cap1}
				if a >= 0 {
					s11.PreCommits = "A"
				}
				rj := e2scen(fmt.Sprintf("E2-verifier-rejects-second-proposal-N4-x%d-%s-%s", x, role, an), 4, x, a, s11)
				rj.RejectReqB = true
				rj.Missing, rj.BadTx = map[int][]H{}, map[int][]H{}
				jobs = append(jobs, job(rj, per))
			}
			if (x == other || x == prim1) && a <= 0 {
				// change views for a view the node has already entered are delivered again (duplicates, stragglers): they
				// must not re-initialise that view (the node would forget what it proposed / answered there)
				s10 := E2Spec{Views: 2, Proposals: "AB", CVs: 1, CVViews: 1, MaxDepth: 10, StateCap: cap1}
				rd := e2scen(fmt.Sprintf("E2-changeviews-redelivered-N4-x%d-%s-%s", x, role, an), 4, x, a, s10)
				rd.Missing, rd.BadTx = map[int][]H{}, map[int][]H{}
				jobs = append(jobs, job(rd, per))
			}
			if x == other && a != 0 {
				// the ledger gets the block of the height under consensus from elsewhere and the application calls Reset a
				// little later: payloads of the old height still arrive in between (anti-MEV off, or switching on exactly
				// at the next height: what is enabled is a property of the height under consensus, not of the ledger)
				s9 := E2Spec{Views: 1, Proposals: "A", Responses: "A", Commits: "AG", PreCommits: "AG", LedgerFirst: true, Heights: 2, MaxDepth: 8, StateCap: cap1}
				jobs = append(jobs, job(e2scen(fmt.Sprintf("E2-ledger-ahead-of-consensus-N4-x%d-%s-%s", x, role, an), 4, x, a, s9), per))
			}
			if x == other {
				// a rejected, late-completed proposal makes the node change view *inside* a timeout / recovery request
				// (pool-first transactions, M-1 change views already stored, next view's proposal cached)
				s12 := E2Spec{Views: 2, Proposals: "A", TxA: []H{102, 103}, TxA1: []H{101}, CVs: 1, CVViews: 1, Commits: "A", PoolFirst: true, MaxDepth: 9, StateCap: cap1}
				jobs = append(jobs, job(e2scen(fmt.Sprintf("E2-poolfirst-twoview-N4-x%d-%s-%s", x, role, an), 4, x, a, s12), per))
			}
			if x == prim1 {
				// a restarted validator follows the others to the view in which it is the speaker and is then handed its
				// own (pre)commit of the earlier view
				s13 := E2Spec{Views: 2, Proposals: "A", OwnIndexProps: true, Responses: "A", RespPeers: 2, Commits: "A", Bundles: true, Peers: []int{0, 1, 2, 3}, MaxDepth: 8, StateCap: cap1}
				if a >= 0 {
					s13.PreCommits = "A"
				}
				jobs = append(jobs, job(e2scen(fmt.Sprintf("E2-restarted-speaker-own-payloads-N4-x%d-%s-%s", x, role, an), 4, x, a, s13), per))
			}
			if x == other && a >= 0 {
				// pre-commits that the application's payload verifier refuses (bad witness, well-formed data) arrive while
				// a proposed transaction is still missing, then the transaction arrives
				s14 := E2Spec{Views: 1, Proposals: "A", TxA: []H{103}, Responses: "A", PreCommits: "AW", NoTimeout: true, MaxDepth: 9, StateCap: cap1}
				jobs = append(jobs, job(e2scen(fmt.Sprintf("E2-refused-precommit-while-tx-missing-N4-x%d-%s-%s", x, role, an), 4, x, a, s14), per))
			}
			if x == other && a >= 0 {
				// the pre-block is processed on M pre-commits of view 0 before X itself pre-committed, then the view
				// changes (possible only with more than F faulty members or restarts, which a single node cannot know):
				// in view 1 X still needs M pre-commits of *that* view before it may commit
				s8 := E2Spec{Views: 2, Proposals: "A", Responses: "A", PreCommits: "AG", Bundles: true, NoTimeout: true, TxA: []H{101}, TxA1: []H{101}, MaxDepth: 11, StateCap: cap1}
				jobs = append(jobs, job(e2scen(fmt.Sprintf("E2-preblock-then-viewchange-N4-x%d-%s-%s", x, role, an), 4, x, a, s8), per))
			}
			if x == other {
				// a validator that was restarted with empty state: payloads carrying its own index (what it sent in its
				// earlier life) come back to it from its peers, next to valid and garbage payloads of the others
				s7 := E2Spec{Views: 1, Proposals: "A", Responses: "A", Commits: "AG", Peers: []int{0, 1, 2, 3}, MaxDepth: 10, StateCap: cap1}
				if a >= 0 {
					s7.PreCommits = "A"
				}
				jobs = append(jobs, job(e2scen(fmt.Sprintf("E2-restarted-validator-own-payloads-N4-x%d-%s-%s", x, role, an), 4, x, a, s7), per))
			}
			if x == other || x == prim1 {
				// own change view first (timeout while responses are stored and everybody has been heard), then the late
				// proposal makes X (pre)commit, then change views for view 1 and for view 2 from everybody: the commit lock
				// must hold although X itself asked to leave the view
				s6 := E2Spec{Views: 1, Proposals: "A", Responses: "A", CVs: 2, MaxDepth: 11, StateCap: cap1}
				jobs = append(jobs, job(e2scen(fmt.Sprintf("E2-own-cv-then-commit-N4-x%d-%s-%s", x, role, an), 4, x, a, s6), per))
			}
			if x == other || x == prim1 {
				// traffic of the next height (proposal, responses, a full set of change views) is cached while X is still
				// at height h; X then gets block h from the ledger (sync) and re-initialises: the cached change views are
				// replayed inside Reset (nested view change)
				s5 := E2Spec{Views: 1, Proposals: "A", Responses: "A", RespPeers: 1, CVs: 1, NextHeight: true, Skip1: true, Heights: 2, MaxDepth: 9, StateCap: cap1}
				jobs = append(jobs, job(e2scen(fmt.Sprintf("E2-nextheight-sync-N4-x%d-%s-%s", x, role, an), 4, x, a, s5), per))
			}
			if a >= 0 && x == other {
				fp := e2scen(fmt.Sprintf("E2-oneview-preblock-fails-once-N4-x%d-%s-%s", x, role, an), 4, x, a, s1)
				fp.FailPre = 1
				jobs = append(jobs, job(fp, per))
				fb := e2scen(fmt.Sprintf("E2-oneview-block-fails-once-N4-x%d-%s-%s", x, role, an), 4, x, a, s1)
				fb.FailBlk = 1
				jobs = append(jobs, job(fb, per))
			}
		}
	}
	if tier == "thorough" {
		jobs = append(jobs, job(e2scen("E2-oneview-N7-x0-amev-off", 7, 0, -1, E2Spec{Views: 1, Proposals: "AB", Responses: "AB", Commits: "AG", MaxDepth: 14, StateCap: 20_000_000}), per))
	}
	return jobs
}

// e2WatchScen: X is watch-only (flag set at a validator index, or outside the list).
func e2WatchScen(name string, n, x int, outside bool, amev int64, dyn bool, start uint32, sp E2Spec) *Scenario {
	sc := e2scen(name, n, x, amev, sp)
	if outside {
		sc.Kinds = nil
		for i := 0; i < n; i++ {
			sc.Kinds = append(sc.Kinds, kSilent)
		}
		sc.Kinds = append(sc.Kinds, kOutside)
		sc.E2.X = n
		sc.Missing = map[int][]H{n: {103}}
		sc.BadTx = map[int][]H{n: {102}}
	} else {
		sc.Kinds[x] = kWatchFlag
	}
	sc.StartHeight = start
	if dyn {
		sc.MaxTimePerBlock = 30e9
	}
	return sc
}

func c13Jobs(tier string) []*Job {
	var jobs []*Job
	per, cap := 100, 300_000
	if tier == "thorough" {
		per, cap = 1200, 10_000_000
	}
	// E1: a watch-only member at every position, so that it is primary at start / after resets for some start height
	for _, a := range []int64{-1, 0} {
		for pos := 0; pos < 4; pos++ {
			for _, start := range []uint32{4, 5} {
				sc := scen(fmt.Sprintf("C13-watchflag%d-N4-start%d-%s", pos, start, amevName(a)), 4, withAMEV(a), withKind(pos, kWatchFlag), withHeights(2), withK(2), withMissing(pos, 101))
				sc.StartHeight = start
				sc.Dev.Dup = false
				if tier != "thorough" {
					sc.K = 1
				}
				jobs = append(jobs, job(sc, per))
			}
		}
		out := scen("C13-outside-node-N4-"+amevName(a), 4, withAMEV(a), withKind(4, kOutside), withHeights(2), withK(2), withMissing(4, 101))
		jobs = append(jobs, job(out, per))
	}
	// dynamic block time, watch-only primary at start
	dyn := scen("C13-watchflag1-N4-dyn", 4, withKind(1, kWatchFlag), withHeights(2), withK(1), withPool())
	dyn.MaxTimePerBlock = 30e9
	jobs = append(jobs, job(dyn, per))
	jobs = append(jobs, job(scen("C13-watchflag0-N1", 1, withKind(0, kWatchFlag), withK(2)), per))
	jobs = append(jobs, job(scen("C13-watchflag2-N7", 7, withKind(2, kWatchFlag), withK(1)), per))
	// E2: the watch-only node against the most general environment
	for _, a := range []int64{-1, 0} {
		pc := ""
		if a >= 0 {
			pc = "AG"
		}
		sp := E2Spec{Views: 2, Proposals: "AB", Responses: "A", Commits: "AG", PreCommits: pc, CVs: 1, RecReq: true, Bundles: true, MaxDepth: 10, StateCap: cap, Peers: []int{0, 1, 3}}
		for _, start := range []uint32{4, 5} { // X = index 2 is primary of height 6 (start 5), backup at height 5
			jobs = append(jobs, job(e2WatchScen(fmt.Sprintf("E2-watchflag-x2-start%d-%s", start, amevName(a)), 4, 2, false, a, false, start, sp), per))
		}
		// hot standby: an active instance holding the same key runs elsewhere, so payloads carrying the watch-only
		// node's own validator index reach it (also the case after a restart in watch-only mode in the middle of a height)
		sps := sp
		sps.Peers = []int{0, 1, 2, 3}
		sps.Proposals = "A"
		jobs = append(jobs, job(e2WatchScen("E2-watchflag-x2-standby-"+amevName(a), 4, 2, false, a, false, 4, sps), per))
		// the same at a height where the watch-only node's index is the primary's: the proposal carries its own index
		// (sent by the active twin, or by itself before it was restarted in watch-only mode) and comes back directly or
		// inside a recovery message
		spp := sps
		spp.OwnIndexProps = true
		spp.Views, spp.CVs, spp.RecReq, spp.Commits = 1, 0, false, "A"
		if a >= 0 {
			spp.PreCommits = "A"
		}
		jobs = append(jobs, job(e2WatchScen("E2-watchflag-x2-standby-of-primary-"+amevName(a), 4, 2, false, a, false, 5, spp), per))
		spo := sp
		spo.Peers = nil
		jobs = append(jobs, job(e2WatchScen("E2-outside-"+amevName(a), 4, 0, true, a, false, 4, spo), per))
	}
	// an active validator is switched to watch-only in the middle of a round (the callback flips): silent from then on
	for _, a := range []int64{-1, 0} {
		spf := E2Spec{Views: 2, Proposals: "A", Responses: "A", RespPeers: 2, Commits: "A", CVs: 1, CVViews: 1, RecReq: true, WatchFlip: true, MaxDepth: 9, StateCap: cap}
		if a >= 0 {
			spf.PreCommits = "A"
		}
		sf := e2scen("E2-validator-switched-to-watch-only-mid-round-"+amevName(a), 4, 2, a, spf)
		sf.Missing, sf.BadTx = map[int][]H{}, map[int][]H{}
		jobs = append(jobs, job(sf, per))
	}
	spd := E2Spec{Views: 1, Proposals: "A", Responses: "A", Commits: "A", RecReq: true, MaxDepth: 10, StateCap: cap, Peers: []int{0, 1, 3}}
	jobs = append(jobs, job(e2WatchScen("E2-watchflag-x2-dyn", 4, 2, false, -1, true, 5, spd), per))
	return jobs
}

func init() {
	e1Check("C13", "E1 (a watch-only member, by flag at every validator position or outside the list, N=1/4/7, two heights so that its index is primary at start or after Reset, anti-MEV off/on, dynamic block time; <=k deviations) + E2 (the watch-only node alone against the unconstrained environment alphabet: proposals with missing transactions, responses, (pre)commits, change views, recovery requests and bundles, timeouts, transaction supplies); oracle: zero Broadcast / Block.Sign / PreBlock.SetData calls by the watch-only node in every state. With zero broadcasts the other validators cannot distinguish it from a silent validator, which gives the differential half of the property.",
		c13Jobs, func(a *Aggregate) string {
			if a.States < 1000 {
				return "too few states"
			}
			return ""
		})
}

func c12Jobs(tier string) []*Job {
	var jobs []*Job
	per, cap := 100, 400_000
	if tier == "thorough" {
		per, cap = 1200, 10_000_000
	}
	all := []H{101, 102, 103}
	for _, a := range []int64{-1, 0} {
		for mask := 1; mask < 8; mask++ {
			var miss []H
			for i, t := range all {
				if mask&(1<<i) != 0 {
					miss = append(miss, t)
				}
			}
			for _, bad := range []bool{false, true} {
				for _, m1 := range [][]H{{104, 105}, {105}} {
					if tier != "thorough" && a == 0 && (mask == 3 || mask == 5 || mask == 6) {
						continue
					}
					// core stratum: proposals of views 0/1, change views to view 1 from every peer, responses from two peers
					sp := E2Spec{Views: 2, Proposals: "A", Responses: "A", RespPeers: 2, CVs: 1, CVViews: 1, PoolFirst: true, TxA: all, TxA1: []H{104, 105}, MaxDepth: 16, StateCap: cap, Peers: nil}
					sc := e2scen(fmt.Sprintf("C12-missing%03b-bad%v-v1missing%d-%s", mask, bad, len(m1), amevName(a)), 4, 2, a, sp)
					sc.Pool = []H{101, 102, 103, 104, 105}
					sc.TxPerBlock = 3
					sc.Missing = map[int][]H{2: append(append([]H{}, miss...), m1...)}
					sc.BadTx = map[int][]H{}
					if bad {
						sc.BadTx[2] = []H{102}
					}
					jobs = append(jobs, job(sc, per))
				}
			}
		}
	}
	// the proposals of views 0 and 1 share a transaction that is missing for both, and the application notifies the
	// library (OnTransaction) before the transaction becomes visible to GetTx: what was supplied for the abandoned
	// proposal is requested again for the new one inside the same call
	for _, a := range []int64{-1, 0} {
		for _, miss := range [][]H{{103}, {102, 103}, {101, 102, 103}} {
			for _, bad := range []bool{false, true} {
				sp := E2Spec{Views: 2, Proposals: "A", Responses: "A", RespPeers: 2, CVs: 1, CVViews: 1, NotifyFirst: true, TxA: all, TxA1: []H{103, 104}, MaxDepth: 16, StateCap: cap}
				sc := e2scen(fmt.Sprintf("C12-shared-tx-missing%d-bad%v-notify-first-%s", len(miss), bad, amevName(a)), 4, 2, a, sp)
				sc.Pool = []H{101, 102, 103, 104, 105}
				sc.TxPerBlock = 3
				sc.Missing = map[int][]H{2: append(append([]H{}, miss...), 104)}
				sc.BadTx = map[int][]H{}
				if bad {
					sc.BadTx[2] = []H{102}
				}
				jobs = append(jobs, job(sc, per))
			}
		}
	}
	// N=7 (M=5): one stratum
	sp := E2Spec{Views: 2, Proposals: "A", Responses: "A", CVs: 1, TxA: all, TxA1: []H{104, 105}, MaxDepth: 12, StateCap: cap, Peers: []int{1, 2, 3, 4, 5}}
	sc := e2scen("C12-N7-missing011-bad", 7, 0, -1, sp)
	sc.Pool, sc.TxPerBlock = []H{101, 102, 103, 104, 105}, 3
	sc.Missing = map[int][]H{0: {101, 102, 104, 105}}
	sc.BadTx = map[int][]H{0: {102}}
	jobs = append(jobs, job(sc, per))
	return jobs
}

func init() {
	e1Check("C12", "E2: a backup alone against the environment: view-0 proposal with 3 transactions of which every non-empty subset is missing locally, completed block accepted or rejected by VerifyBlock, a cached view-1 proposal with its own missing set, responses / commits / change views from all peers that can complete quorums, timeouts (RecoveryRequest re-requests), every order of transaction supplies interleaved with all of it, breadth-first with state deduplication; oracle = reference model 'requested minus supplied' kept from RequestTx arguments: when it empties while the node is still in that view and has not asked to leave it, the same API call must broadcast a PrepareResponse or a ChangeView; plus the closed-world missing-transaction bases of the E1 family",
		func(tier string) []*Job {
			j := c12Jobs(tier)
			per := 100
			if tier == "thorough" {
				per = 900
			}
			for _, a := range []int64{-1, 0} {
				j = append(j, job(scen("B3-missing-tx-n2-N4-"+amevName(a), 4, withAMEV(a), withMissing(2, 101), withK(2), withDev(func(d *Dev) { d.TxOrder = true })), per))
				j = append(j, job(scen("B4-badtx-n2-N4-"+amevName(a), 4, withAMEV(a), withBadTx(2, 101), withMissing(2, 101), withK(2)), per))
			}
			return j
		}, func(a *Aggregate) string {
			if a.Stats.KindsSent["PResp"] == 0 || a.Stats.KindsSent["CV"] == 0 {
				return "no PrepareResponse / ChangeView answer was ever produced"
			}
			return ""
		})
}

func c11Jobs(tier string) []*Job {
	var jobs []*Job
	per, cap := 110, 150_000
	if tier == "thorough" {
		per, cap = 1500, 3_000_000
	}
	h := uint32(5)
	prim0, prim1 := primaryAt(h, 0, 4), primaryAt(h, 1, 4)
	other := 0
	for other == prim0 || other == prim1 {
		other++
	}
	for _, a := range []int64{-1, 0, 6} {
		pc := ""
		if a >= 0 {
			pc = "AG"
		}
		for _, x := range []int{other, prim1, prim0} {
			sp := E2Spec{Views: 2, Proposals: "AB", Responses: "AO", RespPeers: 2, Commits: "AGO", PreCommits: pc, CVs: 1, Bundles: true, RecReq: true, MaxDepth: 12, StateCap: cap}
			sc := e2scen(fmt.Sprintf("C11-sweep-N4-x%d-%s", x, amevName(a)), 4, x, a, sp)
			sc.Sweep = true
			jobs = append(jobs, job(sc, per))
		}
	}
	// a backup that lacks a different transaction in each view (what it asked for in view 0 is not what view 1 needs)
	for _, a := range []int64{-1, 0} {
		sp := E2Spec{Views: 2, Proposals: "A", Responses: "A", RespPeers: 2, Commits: "A", CVs: 1, Bundles: true, MaxDepth: 12, StateCap: cap}
		sc := e2scen(fmt.Sprintf("C11-sweep-N4-x%d-missing-per-view-%s", other, amevName(a)), 4, other, a, sp)
		sc.Missing = map[int][]H{other: {101, 103}}
		sc.BadTx = map[int][]H{}
		sc.Sweep = true
		jobs = append(jobs, job(sc, per))
	}
	// N=2: views v and v-2 share their speaker, so "a proposal for a lower view" can come from the current primary
	spn := E2Spec{Views: 3, Proposals: "A", Responses: "A", CVs: 1, MaxDepth: 10, StateCap: cap}
	scn := e2scen("C11-sweep-N2-x0", 2, 0, -1, spn)
	scn.Sweep = true
	jobs = append(jobs, job(scn, per))
	// validator set (size, membership, own index) changes between heights; next-height traffic; ledger skip
	sp := E2Spec{Views: 1, Proposals: "A", Responses: "A", Commits: "A", CVs: 1, NextHeight: true, OldHeight: true, Skip: true, Heights: 2, MaxDepth: 14, StateCap: cap}
	sc := e2scen("C11-sweep-changing-validators", 4, 2, -1, sp)
	sc.Kinds = append(sc.Kinds, kSilent, kSilent, kSilent)
	sc.ValSets = [][]int{{0, 1, 2, 3}, {3, 2, 1, 0, 4, 5, 6}, {6, 2}}
	sc.Sweep = true
	jobs = append(jobs, job(sc, per))
	// ... and shrinks: 7 validators now, 4 at the next height (early next-height payloads from indices 4..6 of today's list)
	sps := E2Spec{Views: 1, Proposals: "A", Responses: "A", RespPeers: 2, Commits: "A", NextHeight: true, Skip1: true, Heights: 2, MaxDepth: 10, StateCap: cap}
	scs := e2scen("C11-sweep-shrinking-validators", 7, 2, -1, sps)
	scs.ValSets = [][]int{{0, 1, 2, 3, 4, 5, 6}, {3, 2, 1, 0}, {3, 2, 1, 0}}
	scs.Sweep = true
	jobs = append(jobs, job(scs, per))
	return jobs
}

func init() {
	e1Check("C11", "E2 state generation (one real node, full two-view alphabet: proposals A/B, responses, (pre)commits valid/garbage, change views, recovery requests and bundles, timeouts, transaction supplies; N=4 at three roles, anti-MEV off/on/switching, plus a run where the validator set changes size, membership and the node's index between heights) x inadmissible-input sweep in EVERY reached state: index out of range, past height, proposal from a non-primary, proposal/response for a lower view, response from the primary, pre-commit while anti-MEV is off, unrequested transaction, timeout for another height/view, and re-delivery of every stored payload; oracle: whole-struct fingerprint unchanged except LastSeenMessage, no Timer call, no broadcast (re-delivery: at most one RecoveryMessage). Panic watch: every API call of every engine runs under recover; the E1 safety family is part of this check for that purpose.",
		func(tier string) []*Job { return append(c11Jobs(tier), safetyFamily(tier, []int64{-1, 0})...) },
		func(a *Aggregate) string {
			if a.Extra["sweep_pairs"] < 1000 {
				return "inadmissible-input sweep covered fewer than 1000 (state, input) pairs"
			}
			for _, c := range []string{"index-out-of-range", "past-height", "proposal-from-non-primary", "proposal-for-lower-view", "response-for-lower-view", "response-from-primary", "precommit-amev-off", "unrequested-tx", "foreign-timeout", "redelivery-Commit", "redelivery-PResp", "redelivery-CV", "redelivery-PReq"} {
				if a.Extra["sweep/"+c] == 0 {
					return "input class never exercised: " + c
				}
			}
			return ""
		})
}

func c05Jobs(tier string) []*Job {
	var jobs []*Job
	per, cap := 110, 400_000
	k := 2
	if tier == "thorough" {
		per, cap, k = 1500, 8_000_000, 3
	}
	// E2 with the twin oracles: X decides height h from the environment's payloads, receives traffic of h-1, h+1 (early)
	// and late traffic of h, the application Resets or the ledger skips two heights
	for _, a := range []int64{-1, 0, 6} {
		pc := ""
		if a >= 0 {
			pc = "AG" // G: the only pre-commit that can exist before X knows the tip of the next height
		}
		for _, x := range []int{3, 2} { // 3: backup at heights 5 and 6; 2: backup at 5, primary at 6
			sp := E2Spec{Views: 1, Proposals: "A", Responses: "A", RespPeers: 2, Commits: "AG", PreCommits: pc, CVs: 1, NextHeight: true, OldHeight: true, Skip: true, Skip1: true, Bundles: true,
				Heights: 2, MaxDepth: 16, StateCap: cap}
			sc := e2scen(fmt.Sprintf("C05-twin-N4-x%d-%s", x, amevName(a)), 4, x, a, sp)
			sc.Twin = true
			sc.Missing, sc.BadTx = map[int][]H{}, map[int][]H{}
			jobs = append(jobs, job(sc, per))
		}
	}
	// narrow stratum that reaches a decision *after* recovery traffic (bundles incl. one from a higher view, received
	// before and after the own commit), then Reset: flags such as `recovering` are per-call state and must not survive
	for _, a := range []int64{-1, 0} {
		pc := ""
		if a >= 0 {
			pc = "A"
		}
		spr := E2Spec{Views: 1, Proposals: "A", Responses: "A", RespPeers: 2, Commits: "A", PreCommits: pc, Bundles: true, Heights: 2, MaxDepth: 12, StateCap: cap}
		scr := e2scen("C05-twin-N4-x2-recovery-then-decide-"+amevName(a), 4, 2, a, spr)
		scr.Twin = true
		scr.Missing, scr.BadTx = map[int][]H{}, map[int][]H{}
		jobs = append(jobs, job(scr, per))
	}
	// watch-only observers (flag set at a validator index / not in the list) re-initialise like everybody else: early
	// payloads of the next height are taken into account, nothing of the old height survives
	for _, a := range []int64{-1, 0} {
		pc := ""
		if a >= 0 {
			pc = "A"
		}
		for _, outside := range []bool{false, true} {
			spw := E2Spec{Views: 1, Proposals: "A", Responses: "A", RespPeers: 3, Commits: "A", PreCommits: pc, CVs: 1, NextHeight: true, Skip: true, Heights: 2, MaxDepth: 14, StateCap: cap}
			if outside {
				spw.CVs = 0
				spw.Responses = ""
			}
			name := "C05-twin-watchflag-x2-" + amevName(a)
			if outside {
				name = "C05-twin-outside-" + amevName(a)
			}
			scw := e2WatchScen(name, 4, 2, outside, a, false, 4, spw)
			scw.Twin = true
			scw.Missing, scw.BadTx = map[int][]H{}, map[int][]H{}
			jobs = append(jobs, job(scw, per))
		}
	}
	// validator set changes size, membership and X's own index between heights
	sp := E2Spec{Views: 1, Proposals: "A", Responses: "A", RespPeers: 2, Commits: "A", CVs: 1, NextHeight: true, Skip: true, Heights: 2, MaxDepth: 16, StateCap: cap}
	sc := e2scen("C05-twin-changing-validators", 4, 2, -1, sp)
	sc.Kinds = append(sc.Kinds, kSilent, kSilent, kSilent)
	sc.ValSets = [][]int{{0, 1, 2, 3}, {3, 2, 1, 0, 4, 5, 6}, {6, 2}, {6, 2}}
	sc.Twin = true
	sc.Missing, sc.BadTx = map[int][]H{}, map[int][]H{}
	jobs = append(jobs, job(sc, per))
	// the validator list shrinks (7 -> 4): early payloads from indices that do not exist any more at the new height
	spsh := E2Spec{Views: 1, Proposals: "A", Responses: "A", RespPeers: 2, Commits: "A", NextHeight: true, Skip1: true, Heights: 2, MaxDepth: 10, StateCap: cap}
	scsh := e2scen("C05-twin-shrinking-validators", 7, 2, -1, spsh)
	scsh.ValSets = [][]int{{0, 1, 2, 3, 4, 5, 6}, {3, 2, 1, 0}, {3, 2, 1, 0}}
	scsh.Twin = true
	scsh.Missing, scsh.BadTx = map[int][]H{}, map[int][]H{}
	jobs = append(jobs, job(scsh, per))
	// dynamic block time configured, empty pool and empty proposals: the transaction subscription (taken on the first
	// timeout of an idle backup / primary) is per-height state too
	for _, x := range []int{3, 2} {
		spd := E2Spec{Views: 1, Proposals: "A", Responses: "A", RespPeers: 2, Commits: "A", CVs: 1, NextHeight: true, Skip: true, Heights: 2, MaxDepth: 16, StateCap: cap, TxA: []H{}}
		scd := e2scen(fmt.Sprintf("C05-twin-N4-x%d-dynamic-block-time", x), 4, x, -1, spd, withPool())
		scd.MaxTimePerBlock = 30e9
		scd.TimeVar = true // "timing taken afresh from the callbacks": both block times change from height to height
		scd.Twin = true
		scd.Missing, scd.BadTx = map[int][]H{}, map[int][]H{}
		jobs = append(jobs, job(scd, per))
	}
	// E1: closed-world multi-height runs (late traffic after the decision, early traffic before Reset, ledger sync of a lagging node)
	multi := func(name string, n int, opts ...opt) *Scenario {
		sc := scen(name, n, append([]opt{withHeights(3), withK(k)}, opts...)...)
		sc.Dev.Sync = true
		sc.Dev.Stale = false
		return sc
	}
	jobs = append(jobs, job(multi("C05-3heights-N4-amev-off", 4), per))
	jobs = append(jobs, job(multi("C05-3heights-N4-amev-switch", 4, withAMEV(6)), per))
	jobs = append(jobs, job(multi("C05-3heights-N4-byz0", 4, withKind(0, kByz), withK(1)), per))
	vs := multi("C05-valsets-4-7-4", 7, withK(1))
	vs.ValSets = [][]int{{0, 1, 2, 3}, {0, 1, 2, 3, 4, 5, 6}, {3, 2, 1, 0}, {3, 2, 1, 0}}
	jobs = append(jobs, job(vs, per))
	sil := multi("C05-3heights-N4-silent-primary", 4, withKind(primaryAt(5, 0, 4), kSilent), withK(1))
	jobs = append(jobs, job(sil, per))
	return jobs
}

func init() {
	e1Check("C05", "E2 (one real node deciding two heights from environment payloads; alphabet: current-height proposal/responses/(pre)commits valid+garbage/change views, payloads of height h-1 and h+1, timeouts, Reset, ledger skip of two heights; anti-MEV off/on/switching on; validator set changing size, membership and own index) with, in every state reached by a Reset: twin (e) history-with-early-payloads+Reset == history-without+Reset+payloads and twin (d) == a node started afresh at that ledger position (modulo rttEstimates, lastBlock*, Timestamp/Nonce scratch); plus E1 closed-world runs over 3 heights (N=4, one Byzantine member, silent primary, validator sets 4->7->4 with changing indices, ledger sync, held/duplicated messages, <=k deviations); monitors: (a) <=1 ProcessBlock per height, (b) between acceptance and Reset every API call leaves the whole-struct fingerprint (minus LastSeenMessage and the cache) unchanged, touches no timer, broadcasts at most one RecoveryMessage per RecoveryRequest, (c) after Reset height/view/validators/own index/table lengths equal the callbacks' answers and the cache holds no height <= ledger",
		c05Jobs, func(a *Aggregate) string {
			if a.Extra["twin_comparisons"] < 100 || a.Extra["twin_with_early_payloads"] < 10 {
				return "twin oracle compared too few re-initialisations / none with early payloads"
			}
			return ""
		})
}
