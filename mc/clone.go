package main

// Snapshot accelerator: World.clone() builds fresh library instances (so that all
// callbacks are bound to the new harness nodes) and deep-copies the consensus
// state into them. It is an accelerator only: the first clones of every run and a
// sample of later ones are cross-checked against the replay of the event path on
// fresh instances (state keys must be equal), any mismatch is a harness fault.

import (
	"maps"

	"github.com/nspcc-dev/dbft"
	"reflect"
	"slices"
	"time"
	"unsafe"
)

type cpCtx struct {
	node   *Node
	blocks map[unsafe.Pointer]reflect.Value
}

var (
	tPub  = reflect.TypeOf(pubKey{})
	tPriv = reflect.TypeOf(privKey{})
	tTx   = reflect.TypeOf(Tx{})
)

// writable returns a settable view of a (possibly unexported) addressable field.
func writable(f reflect.Value) reflect.Value {
	return reflect.NewAt(f.Type(), unsafe.Pointer(f.UnsafeAddr())).Elem()
}

// cp returns a fresh deep copy of v (payloads are shared: they are immutable once broadcast).
func (c *cpCtx) cp(v reflect.Value) reflect.Value {
	t := v.Type()
	switch v.Kind() {
	case reflect.Bool:
		n := reflect.New(t).Elem()
		n.SetBool(v.Bool())
		return n
	case reflect.Int, reflect.Int8, reflect.Int16, reflect.Int32, reflect.Int64:
		n := reflect.New(t).Elem()
		n.SetInt(v.Int())
		return n
	case reflect.Uint, reflect.Uint8, reflect.Uint16, reflect.Uint32, reflect.Uint64, reflect.Uintptr:
		n := reflect.New(t).Elem()
		n.SetUint(v.Uint())
		return n
	case reflect.String:
		n := reflect.New(t).Elem()
		n.SetString(v.String())
		return n
	case reflect.Slice:
		if v.IsNil() {
			return reflect.Zero(t)
		}
		n := reflect.MakeSlice(t, v.Len(), v.Len())
		for i := 0; i < v.Len(); i++ {
			n.Index(i).Set(c.cp(v.Index(i)))
		}
		return n
	case reflect.Array:
		n := reflect.New(t).Elem()
		for i := 0; i < v.Len(); i++ {
			n.Index(i).Set(c.cp(v.Index(i)))
		}
		return n
	case reflect.Map:
		if v.IsNil() {
			return reflect.Zero(t)
		}
		n := reflect.MakeMapWithSize(t, v.Len())
		it := v.MapRange()
		for it.Next() {
			n.SetMapIndex(c.cp(it.Key()), c.cp(it.Value()))
		}
		return n
	case reflect.Interface:
		if v.IsNil() {
			return reflect.Zero(t)
		}
		n := reflect.New(t).Elem()
		n.Set(c.cp(v.Elem()))
		return n
	case reflect.Ptr:
		if v.IsNil() {
			return reflect.Zero(t)
		}
		switch t {
		case tPayload:
			return reflect.ValueOf((*Payload)(v.UnsafePointer()))
		case tBlock:
			key := v.UnsafePointer()
			if nb, ok := c.blocks[key]; ok {
				return nb
			}
			b := *(*Block)(key)
			b.txHashes = slices.Clone(b.txHashes)
			b.txs = slices.Clone(b.txs)
			b.sig = slices.Clone(b.sig)
			b.owner = c.node
			nb := reflect.ValueOf(&b)
			c.blocks[key] = nb
			return nb
		case tPreBlock:
			key := v.UnsafePointer()
			if nb, ok := c.blocks[key]; ok {
				return nb
			}
			b := *(*PreBlock)(key)
			b.txHashes = slices.Clone(b.txHashes)
			b.txs = slices.Clone(b.txs)
			b.data = slices.Clone(b.data)
			b.owner = c.node
			nb := reflect.ValueOf(&b)
			c.blocks[key] = nb
			return nb
		}
		n := reflect.New(t.Elem())
		c.cpStructInto(v.Elem(), n.Elem())
		return n
	case reflect.Struct:
		switch t {
		case tTime:
			var tm time.Time
			if v.CanAddr() {
				tm = *(*time.Time)(unsafe.Pointer(v.UnsafeAddr()))
			} else {
				panic(harnessFault{"clone: unaddressable time.Time"})
			}
			return reflect.ValueOf(tm)
		case tPub:
			return reflect.ValueOf(pubKey{int(v.Field(0).Int())})
		case tPriv:
			return reflect.ValueOf(privKey{int(v.Field(0).Int())})
		case tTx:
			return reflect.ValueOf(Tx{H(v.Field(0).Uint())})
		}
		n := reflect.New(t).Elem()
		c.cpStructInto(v, n)
		return n
	}
	panic(harnessFault{"clone: unhandled kind " + v.Kind().String() + " of " + t.String()})
}

var (
	tPaySlice = reflect.TypeOf([]dbft.ConsensusPayload[H]{})
	tKeySlice = reflect.TypeOf([]dbft.PublicKey{})
	tHVSlice  = reflect.TypeOf([]*dbft.HeightView{})
	tHSlice   = reflect.TypeOf([]H{})
	tTxMap    = reflect.TypeOf(map[H]dbft.Transaction[H]{})
	plainMemo = map[reflect.Type]bool{}
)

// plain reports whether values of t can be copied by plain assignment (no mutable state behind pointers).
func plain(t reflect.Type) bool {
	if r, ok := plainMemo[t]; ok {
		return r
	}
	r := false
	switch t.Kind() {
	case reflect.Bool, reflect.Int, reflect.Int8, reflect.Int16, reflect.Int32, reflect.Int64,
		reflect.Uint, reflect.Uint8, reflect.Uint16, reflect.Uint32, reflect.Uint64, reflect.Uintptr, reflect.String:
		r = true
	case reflect.Array:
		r = plain(t.Elem())
	case reflect.Struct:
		if t == tTime {
			r = true
			break
		}
		r = true
		for i := 0; i < t.NumField(); i++ {
			if !plain(t.Field(i).Type) {
				r = false
			}
		}
	}
	plainMemo[t] = r
	return r
}

// fast copies fields of well-known types without per-element reflection. Payloads, keys, transactions and
// HeightView objects are never mutated in place by the library, so their pointers/boxes are shared.
func fast(sf, df reflect.Value) bool {
	if !sf.CanAddr() {
		return false
	}
	sp, dp := unsafe.Pointer(sf.UnsafeAddr()), unsafe.Pointer(df.UnsafeAddr())
	switch sf.Type() {
	case tPaySlice:
		*(*[]dbft.ConsensusPayload[H])(dp) = slices.Clone(*(*[]dbft.ConsensusPayload[H])(sp))
	case tKeySlice:
		*(*[]dbft.PublicKey)(dp) = slices.Clone(*(*[]dbft.PublicKey)(sp))
	case tHVSlice:
		*(*[]*dbft.HeightView)(dp) = slices.Clone(*(*[]*dbft.HeightView)(sp))
	case tHSlice:
		*(*[]H)(dp) = slices.Clone(*(*[]H)(sp))
	case tTxMap:
		*(*map[H]dbft.Transaction[H])(dp) = maps.Clone(*(*map[H]dbft.Transaction[H])(sp))
	default:
		if plain(sf.Type()) {
			writable(df).Set(writable(sf))
			return true
		}
		return false
	}
	return true
}

// cpStructInto copies every field of src (addressable or not) into the addressable struct dst.
func (c *cpCtx) cpStructInto(src, dst reflect.Value) {
	if src.Kind() != reflect.Struct {
		writable(dst).Set(c.cp(src))
		return
	}
	t := src.Type()
	for i := 0; i < src.NumField(); i++ {
		name := t.Field(i).Name
		if name == "Config" || name == "Logger" || name == "Timer" || name == "Mutex" {
			continue
		}
		sf := src.Field(i)
		if sf.Kind() == reflect.Func {
			continue
		}
		if fast(sf, dst.Field(i)) {
			continue
		}
		if sf.Kind() == reflect.Struct && sf.Type() != tTime && sf.Type() != tPub && sf.Type() != tPriv && sf.Type() != tTx {
			c.cpStructInto(sf, dst.Field(i))
			continue
		}
		writable(dst.Field(i)).Set(c.cp(sf))
	}
}

func cloneMon(m *mon) *mon {
	if m == nil {
		return nil
	}
	c := *m
	c.sentReq = maps.Clone(m.sentReq)
	c.sentResp = maps.Clone(m.sentResp)
	c.verifiedOK = maps.Clone(m.verifiedOK)
	c.commitVer = maps.Clone(m.commitVer)
	c.preCVer = maps.Clone(m.preCVer)
	c.requested = maps.Clone(m.requested)
	return &c
}

func (n *Node) cloneInto(w2 *World) *Node {
	n2 := &Node{}
	*n2 = *n
	n2.w = w2
	n2.known = maps.Clone(n.known)
	n2.pool = slices.Clone(n.pool)
	n2.outbox = nil
	n2.callBroadcasts = nil
	n2.curInput = nil
	n2.m = cloneMon(n.m)
	n2.cvSeen = make(map[uint32]map[uint16]byte, len(n.cvSeen))
	for h, m := range n.cvSeen {
		n2.cvSeen[h] = maps.Clone(m)
	}
	if !n.kind.real() || n.d == nil {
		return n2
	}
	n2.build() // fresh instance + fresh timer bound to n2 (resets n2.m)
	n2.m = cloneMon(n.m)
	t := *n.t
	t.n = n2
	*n2.t = t
	c := &cpCtx{node: n2, blocks: map[unsafe.Pointer]reflect.Value{}}
	c.cpStructInto(reflect.ValueOf(n.d).Elem(), reflect.ValueOf(n2.d).Elem())
	return n2
}

// clone returns an independent copy of the world.
func (w *World) clone() *World {
	w2 := &World{}
	*w2 = *w
	w2.cur = nil
	w2.nodes = make([]*Node, len(w.nodes))
	for i, n := range w.nodes {
		w2.nodes[i] = n.cloneInto(w2)
	}
	w2.net = slices.Clone(w.net)
	w2.decided = maps.Clone(w.decided)
	w2.decidedView = maps.Clone(w.decidedView)
	w2.blocks = maps.Clone(w.blocks)
	w2.wire = slices.Clone(w.wire)
	w2.wireSet = maps.Clone(w.wireSet)
	w2.got = make([]map[H]*Payload, len(w.got))
	for i, g := range w.got {
		w2.got[i] = maps.Clone(g)
	}
	w2.viol = slices.Clone(w.viol)
	w2.violKeys = maps.Clone(w.violKeys)
	w2.hist = slices.Clone(w.hist)
	w2.log = slices.Clone(w.log)
	w2.obs = make([][]string, len(w.obs))
	for i := range w.obs {
		w2.obs[i] = slices.Clone(w.obs[i])
	}
	if w.byz != nil {
		b := *w.byz
		b.w = w2
		b.sent = maps.Clone(w.byz.sent)
		w2.byz = &b
	}
	if w.lastNPR != nil {
		x := *w.lastNPR
		w2.lastNPR = &x
	}
	curWorld = w2
	return w2
}
