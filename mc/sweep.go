package main

// C11 sweep: for a state s of the real node X and every inadmissible input i of
// the classes named in the property, apply i and require that nothing changed
// except LastSeenMessage[sender], that the timer was not touched and nothing was
// broadcast (re-delivery of a stored payload may be answered with a recovery message).

import (
	"fmt"
	"slices"

	"github.com/nspcc-dev/dbft"
)

type sweepInput struct {
	class string
	p     *Payload // OnReceive
	tx    H        // OnTransaction (class unrequested-tx)
	th    uint32   // OnTimeout
	tv    byte
	redelivery bool
}

func (s sweepInput) String() string {
	switch {
	case s.p != nil:
		return s.class + ": " + s.p.String()
	case s.class == "unrequested-tx":
		return fmt.Sprintf("%s: tx %s", s.class, s.tx)
	}
	return fmt.Sprintf("%s: OnTimeout(%d,%d)", s.class, s.th, s.tv)
}

// sweepInputs lists the inadmissible inputs for node n in its current state (deterministic order).
func sweepInputs(n *Node) []sweepInput {
	c := n.ctx()
	var out []sweepInput
	nv := len(c.Validators)
	if nv == 0 {
		return nil
	}
	h, v := c.BlockIndex, c.ViewNumber
	mk := func(t dbft.MessageType, hh uint32, vv byte, idx int, body any) *Payload {
		p := &Payload{typ: t, height: hh, view: vv, idx: uint16(idx), body: body, srcNode: -1}
		p.Hash()
		return p
	}
	my := c.MyIndex
	others := []int{}
	for i := 0; i < nv && len(others) < 2; i++ {
		if i != my {
			others = append(others, i)
		}
	}
	if len(others) == 0 {
		others = []int{0}
	}
	prim := int(c.GetPrimaryIndex(v))
	nonPrim := -1
	for _, i := range others {
		if i != prim {
			nonPrim = i
		}
	}
	sig := mkSig('B', 0, H(0x1234))
	// (1) validator index outside the current list
	for _, idx := range []int{nv, nv + 7} {
		out = append(out,
			sweepInput{class: "index-out-of-range", p: mk(dbft.ChangeViewType, h, v, idx, &changeView{newView: v + 1, ts: 1})},
			sweepInput{class: "index-out-of-range", p: mk(dbft.PrepareRequestType, h, v, idx, &prepReq{ts: 5, nonce: 1})},
			sweepInput{class: "index-out-of-range", p: mk(dbft.CommitType, h, v, idx, &commitBody{sig})},
			sweepInput{class: "index-out-of-range", p: mk(dbft.RecoveryRequestType, h, v, idx, &recReq{1})},
			// ... also when tagged with a later view or height (must not be parked in the future-message cache either:
			// "no effect beyond noting that the sender is alive")
			sweepInput{class: "index-out-of-range", p: mk(dbft.CommitType, h, v+1, idx, &commitBody{sig})},
			sweepInput{class: "index-out-of-range", p: mk(dbft.CommitType, h+1, 0, idx, &commitBody{sig})},
			sweepInput{class: "index-out-of-range", p: mk(dbft.ChangeViewType, h+1, 0, idx, &changeView{newView: 1, ts: 1})},
			sweepInput{class: "index-out-of-range", p: mk(dbft.PrepareResponseType, h+2, 0, idx, &prepResp{H(0x79)})})
	}
	// (2) past heights
	if h > 0 {
		for _, i := range others {
			out = append(out,
				sweepInput{class: "past-height", p: mk(dbft.ChangeViewType, h-1, 0, i, &changeView{newView: 1, ts: 1})},
				sweepInput{class: "past-height", p: mk(dbft.CommitType, h-1, v, i, &commitBody{sig})},
				sweepInput{class: "past-height", p: mk(dbft.CommitType, h-1, v+1, i, &commitBody{sig})},
				sweepInput{class: "past-height", p: mk(dbft.PrepareRequestType, h-1, 0, i, &prepReq{ts: 5, nonce: 1})},
				sweepInput{class: "past-height", p: mk(dbft.RecoveryRequestType, h-1, 0, i, &recReq{1})})
			rm := &recMsg{}
			rm.AddPayload(mk(dbft.ChangeViewType, h-1, 0, i, &changeView{newView: 1, ts: 1}))
			out = append(out, sweepInput{class: "past-height", p: mk(dbft.RecoveryMessageType, h-1, 1, i, rm)})
		}
	}
	// (3) current-view proposal not sent by that view's primary
	if nonPrim >= 0 {
		out = append(out, sweepInput{class: "proposal-from-non-primary", p: mk(dbft.PrepareRequestType, h, v, nonPrim, &prepReq{ts: c.Timestamp + 1, nonce: 9, txs: []H{101}})})
	}
	// (4) proposal / response for a lower view
	if v > 0 {
		lp := int(c.GetPrimaryIndex(v - 1))
		if lp != my {
			out = append(out, sweepInput{class: "proposal-for-lower-view", p: mk(dbft.PrepareRequestType, h, v-1, lp, &prepReq{ts: 7, nonce: 9, txs: []H{101}})})
		}
		// ... and of every other lower view from that view's own primary (views v and v-N share their speaker)
		for lv := int(v) - 2; lv >= 0; lv-- {
			if lq := primaryAt(h, byte(lv), nv); lq != my {
				out = append(out, sweepInput{class: "proposal-for-lower-view", p: mk(dbft.PrepareRequestType, h, byte(lv), lq, &prepReq{ts: 7, nonce: 9, txs: []H{101}})})
			}
		}
		for _, i := range others {
			if i != lp {
				out = append(out, sweepInput{class: "response-for-lower-view", p: mk(dbft.PrepareResponseType, h, v-1, i, &prepResp{H(0x77)})})
			}
		}
	}
	// (5) prepare response from the primary
	if prim != my {
		rh := H(0x78)
		if q := c.PreparationPayloads[prim]; q != nil {
			rh = q.Hash()
		}
		out = append(out, sweepInput{class: "response-from-primary", p: mk(dbft.PrepareResponseType, h, v, prim, &prepResp{rh})})
	}
	// (6) pre-commits while anti-MEV is off for this height (current or lower view)
	if !n.amevAt(h) {
		for _, i := range others {
			out = append(out, sweepInput{class: "precommit-amev-off", p: mk(dbft.PreCommitType, h, v, i, &preCommitBody{mkSig('P', i, H(5))})})
			if v > 0 {
				out = append(out, sweepInput{class: "precommit-amev-off", p: mk(dbft.PreCommitType, h, v-1, i, &preCommitBody{mkSig('P', i, H(5))})})
			}
		}
	}
	// (7) transactions that were not requested
	// ("requested" is judged from the current proposal, not from the library's own MissingTransactions list: a hash
	// that the current view's proposal does not name was not requested for it. A transaction of the proposal that the
	// node already holds is not offered: the library asks for missing transactions again on a recovery request, so the
	// application may legitimately supply one twice)
	out = append(out, sweepInput{class: "unrequested-tx", tx: H(0x7777)})
	for t := H(101); t <= 106; t++ {
		if !slices.Contains(c.TransactionHashes, t) || !c.RequestSentOrReceived() {
			out = append(out, sweepInput{class: "unrequested-tx", tx: t})
		}
	}
	// (8) timeouts tagged with another height or view
	out = append(out, sweepInput{class: "foreign-timeout", th: h - 1, tv: v}, sweepInput{class: "foreign-timeout", th: h + 1, tv: v},
		sweepInput{class: "foreign-timeout", th: h, tv: v + 1})
	if v > 0 {
		out = append(out, sweepInput{class: "foreign-timeout", th: h, tv: v - 1})
	}
	// (9) every payload already stored, delivered again
	// (the active tables only: LastChangeViewPayloads is history kept for recovery messages; a change view for a still
	// higher view found there is no longer in the active table, so delivering it again legitimately registers it anew)
	for _, tbl := range [][]dbft.ConsensusPayload[H]{c.PreparationPayloads, c.CommitPayloads, c.PreCommitPayloads, c.ChangeViewPayloads} {
		for i, q := range tbl {
			if q == nil || i == my {
				continue
			}
			out = append(out, sweepInput{class: "redelivery-" + typeShort[q.Type()], p: q.(*Payload), redelivery: true})
		}
	}
	return out
}

// applySweep applies one sweep input under the C11 oracle. Returns a description if it is a violation.
func (n *Node) applySweep(in sweepInput) (key, msg string) {
	before := fingerprint(n, fpSeenSkip)
	viewBefore := n.d.ViewNumber
	// "at most noting that their sender is alive": the per-validator last-seen record may only move forward
	type hv struct {
		ok   bool
		h    uint32
		view byte
	}
	var seenBefore []hv
	for _, e := range n.ctx().LastSeenMessage {
		if e == nil {
			seenBefore = append(seenBefore, hv{})
		} else {
			seenBefore = append(seenBefore, hv{true, e.Height, e.View})
		}
	}
	ops := n.t.ops
	nb := n.broadcasts
	viol := len(n.w.viol)
	switch {
	case in.p != nil:
		n.Receive(in.p)
	case in.class == "unrequested-tx":
		n.api("OnTransaction", nil, func() { n.d.OnTransaction(Tx{in.tx}) })
		n.flush()
	default:
		n.api("OnTimeout", nil, func() { n.d.OnTimeout(in.th, in.tv) })
		n.flush()
	}
	n.fpValid = false
	if n.crashed {
		// a panic: reported through the normal channel (C11/panic/...)
		return "", ""
	}
	_ = viol // another monitor may have fired too (reported through the normal channel); the input's effect is still judged here
	after := fingerprint(n, fpSeenSkip)
	if ls := n.ctx().LastSeenMessage; len(ls) == len(seenBefore) && after == before {
		for i, b := range seenBefore {
			if !b.ok {
				continue
			}
			if e := ls[i]; e == nil || e.Height < b.h || (e.Height == b.h && e.View < b.view) {
				return "C11/last-seen-record-moved-backwards/" + in.class, fmt.Sprintf("inadmissible input made validator %d look less recently seen (was height %d view %d): %s", i, b.h, b.view, in.String())
			}
		}
	}
	switch {
	case after != before:
		if in.redelivery && in.p.typ == dbft.ChangeViewType && n.d.ViewNumber > viewBefore && in.p.body.(*changeView).newView == n.d.ViewNumber {
			// the stored change views already formed a quorum for this view, the node had not noticed
			return "C11/state-changed/redelivery-CV/completes-unnoticed-lower-view-quorum", "re-delivered stored ChangeView moved the node to the next view: " + in.String()
		}
		return "C11/state-changed/" + in.class, "inadmissible input changed the node's state: " + in.String()
	case n.t.ops != ops:
		return "C11/timer-touched/" + in.class, "inadmissible input touched the timer: " + in.String()
	case n.broadcasts != nb:
		if in.redelivery {
			ok := true
			for _, p := range n.callBroadcasts {
				if p.typ != dbft.RecoveryMessageType {
					ok = false
				}
			}
			if ok && len(n.callBroadcasts) == 1 {
				return "", ""
			}
		}
		return "C11/broadcast/" + in.class, fmt.Sprintf("inadmissible input caused a broadcast (%v): %s", n.callBroadcasts, in.String())
	}
	return "", ""
}

// sweepState runs the whole sweep on the (expendable) world w at state `path`.
func (x *Explorer) sweepState(w *World, path []Event) {
	n := w.e2X()
	if n.crashed || n.d == nil {
		return
	}
	ins := sweepInputs(n)
	for i, in := range ins {
		x.res.Extra["sweep_pairs"]++
		x.res.Extra["sweep/"+in.class]++
		nv := len(w.viol)
		key, msg := n.applySweep(in)
		if len(w.viol) > nv {
			// a panic or another monitor fired on the inadmissible input: reported through the normal channel
			x.check(w, append(append([]Event{}, path...), Event{K: "sweep", N: n.id, A: i}))
			if key == "" {
				return
			}
		}
		if key == "" {
			continue
		}
		// confirm on a fresh replica of the state with this input alone
		w2 := x.replay(path)
		ins2 := sweepInputs(w2.e2X())
		if i < len(ins2) {
			if k2, m2 := w2.e2X().applySweep(ins2[i]); k2 != "" {
				key, msg = k2, m2
			} else {
				key = "" // needed the earlier sweep inputs: not reported (they only move LastSeenMessage)
			}
		}
		if key != "" && !x.foundKey[key] {
			x.foundKey[key] = true
			np := append(append([]Event{}, path...), Event{K: "sweep", N: n.id, A: i})
			x.res.Found = append(x.res.Found, Found{Violation: Violation{"C11", key, n.id, msg}, Path: np, Scenario: x.sc})
		}
		return // the world is no longer the state under test
	}
}
