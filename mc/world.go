package main

// World = N nodes (real library instances or scripted faulty members) + network
// + virtual clock + application ledgers. One Event = one real API call.

import (
	"fmt"
	"slices"
	"sort"
	"time"

	"github.com/nspcc-dev/dbft"
)

// Scenario is plain data so that it can be written into replay files.
type Scenario struct {
	Name            string        `json:"name"`
	N               int           `json:"n"`
	Kinds           []nodeKind    `json:"kinds"` // per node id; len may exceed N for nodes outside the list
	StartHeight     uint32        `json:"start_height"`
	Heights         int           `json:"heights"`
	MaxView         byte          `json:"max_view"`
	AMEV            int64         `json:"amev"`
	Timed           bool          `json:"timed"`
	TimePerBlock    time.Duration `json:"time_per_block"`
	MaxTimePerBlock time.Duration `json:"max_time_per_block"`
	StrictVerify    bool          `json:"strict_verify,omitempty"` // VerifyBlock/VerifyPreBlock also refuse a block whose attached transactions are not exactly the listed ones
	OneShotSub      bool          `json:"one_shot_sub,omitempty"` // OnNewTransaction is called at most once per SubscribeForTxs call and never without one (config.go: "single-use")
	TimeVar         bool          `json:"time_var,omitempty"` // TimePerBlock / MaxTimePerBlock callbacks answer differently at odd and even ledger heights
	TSIncrement     uint64        `json:"ts_increment"`
	EpochUnix       int64         `json:"epoch_unix"`
	TxPerBlock      int           `json:"tx_per_block"`
	Pool            []H           `json:"pool"`
	Missing         map[int][]H   `json:"missing,omitempty"`
	BadTx           map[int][]H   `json:"bad_tx,omitempty"`
	ValSets         [][]int       `json:"val_sets,omitempty"`
	RejectReqV0     []int         `json:"reject_req_v0,omitempty"` // nodes whose VerifyPrepareRequest rejects view-0 proposals
	RejectReqB      bool          `json:"reject_req_b,omitempty"`  // every node's VerifyPrepareRequest rejects the environment's "B" proposals (nonce 0xB0+view)
	FailPre         int           `json:"fail_pre,omitempty"`      // first k ProcessPreBlock calls per node and height fail
	PreDataTxOnly   bool          `json:"pre_data_tx_only,omitempty"` // pre-commit data binds only (height, transactions), see types.go preDataHash
	FailBlk         int           `json:"fail_blk,omitempty"`      // first k ProcessBlock calls per node and height fail (AMEV only)
	FailNodes       []int         `json:"fail_nodes,omitempty"`
	Dev             Dev           `json:"dev"`
	K               int           `json:"k"`
	Mode            string        `json:"mode"` // kbound | all | focus
	Focus           []int         `json:"focus,omitempty"`
	MaxDepth        int           `json:"max_depth"`
	HorizonExpiries int           `json:"horizon_expiries,omitempty"` // timed mode: max timer expiries per path
	NewTxAt         []int         `json:"new_tx_at,omitempty"`        // timed: a transaction appears at these instants (seconds after start)
	SyncDefault     bool          `json:"sync_default,omitempty"`     // lagging nodes catch up from the ledger in the default schedule
	CutSet          []int         `json:"cut_set,omitempty"`
	CutAt           int           `json:"cut_at,omitempty"`  // cut starts after this many default events
	CutExp          int           `json:"cut_exp,omitempty"` // and heals after this many timer expiries
	RestartNode     int           `json:"restart_node,omitempty"`
	RestartAt       int           `json:"restart_at,omitempty"` // -1/0 = none
	ClockNs         int64         `json:"clock_ns,omitempty"`   // absolute virtual clock at start (overrides EpochUnix)
	PrevTS          uint64        `json:"prev_ts,omitempty"`    // timestamp of the ledger tip at start
	PrevTSSet       bool          `json:"prev_ts_set,omitempty"`
	ZeroStart       bool          `json:"zero_start,omitempty"` // StartHeight 0 is meant literally
	E2              *E2Spec       `json:"e2,omitempty"`         // open-environment mode: one real node
	Pools           map[int][]H   `json:"pools,omitempty"`      // per-node initial pool (overrides Pool)
	Twin            bool          `json:"twin,omitempty"`       // C05: twin oracles after every re-initialisation (E2 only)
	ValBase         uint32        `json:"val_base,omitempty"`   // height of ValSets[0] minus one (defaults to StartHeight)
	TipHash         H             `json:"tip_hash,omitempty"`
	TipSet          bool          `json:"tip_set,omitempty"`
	FreshPools      map[int][]H   `json:"-"`
	FreshKnown      map[int][]H   `json:"-"`
	Sweep           bool          `json:"sweep,omitempty"`      // C11: inadmissible-input sweep in every state (E2 only)
	MaxDecideView   int           `json:"max_decide_view,omitempty"` // C09: with S silent from the start every height is decided in a view <= |S| (-1: not checked)
	Oracle          string        `json:"oracle,omitempty"`     // extra world-level oracle: C08 | C09 | C16
	ByzScript       []ByzStep     `json:"byz_script,omitempty"` // sends of the Byzantine member that are part of the base (cost 0)
	TxLast          bool          `json:"tx_last,omitempty"` // requested transactions are supplied after everything deliverable has been delivered (slow fetch)
	FairTimers      bool          `json:"fair_timers,omitempty"` // safety mode: the default schedule fires quiescent timers round-robin (instead of shortest duration first)
	LossyLinks      [][2]int      `json:"lossy_links,omitempty"` // directed links (from, to) that lose every message for the whole run (part of the base)

	// derived helpers (not serialised)
	e2cache *e2env
	RejectPayload func(node int, p *Payload) bool     `json:"-"`
	FailPreBlock  func(node int, h uint32, call int) bool `json:"-"`
	FailBlock     func(node int, h uint32, ok int) bool   `json:"-"`
}

// ByzStep is one scripted send of a Byzantine member.
type ByzStep struct {
	Item string `json:"item"`
	View int    `json:"view"`
	Mask int    `json:"mask"`
}

// Dev says which deviation kinds are part of the alphabet.
type Dev struct {
	Reorder   bool `json:"reorder"`
	Dup       bool `json:"dup"`
	Premature bool `json:"premature"` // timer fires while messages are in flight (safety mode)
	Tick      bool `json:"tick"`      // timed mode: a second passes while messages are in flight (never across an armed deadline)
	SlowReset bool `json:"slow_reset"` // timed mode: a timer may fire while another node's Reset is still pending
	NotifyLag bool `json:"notify_lag"` // a new transaction's OnNewTransaction notification reaches one node after the message traffic of that instant
	Hold      bool `json:"hold"`      // postpone one in-flight message until nothing else is deliverable
	Stale     bool `json:"stale"`
	Perm      bool `json:"perm"`
	Byz       bool `json:"byz"`
	Restart   bool `json:"restart"`
	Sync      bool `json:"sync"`
	TxOrder   bool `json:"tx_order"`
}

func (sc *Scenario) finish() *Scenario {
	if sc.TimePerBlock == 0 {
		sc.TimePerBlock = 10 * time.Second
	}
	if sc.TSIncrement == 0 {
		sc.TSIncrement = uint64(time.Millisecond)
	}
	if sc.EpochUnix == 0 {
		sc.EpochUnix = 1_700_000_000
	}
	if sc.StartHeight == 0 && !sc.ZeroStart {
		sc.StartHeight = 4
	}
	if sc.Heights == 0 {
		sc.Heights = 1
	}
	if sc.ValBase == 0 {
		sc.ValBase = sc.StartHeight
	}
	if sc.TxPerBlock == 0 {
		sc.TxPerBlock = 1
	}
	if sc.MaxDepth == 0 {
		sc.MaxDepth = 400
	}
	if sc.Mode == "" {
		sc.Mode = "kbound"
	}
	for len(sc.Kinds) < sc.N {
		sc.Kinds = append(sc.Kinds, kHonest)
	}
	if sc.RejectReqB {
		sc.RejectPayload = func(node int, p *Payload) bool {
			if p.typ != dbft.PrepareRequestType {
				return false
			}
			r, ok := p.body.(*prepReq)
			return ok && r.nonce >= 0xB0 && r.nonce < 0xC0
		}
	}
	if len(sc.RejectReqV0) > 0 {
		sc.RejectPayload = func(node int, p *Payload) bool {
			return p.typ == dbft.PrepareRequestType && p.view == 0 && slices.Contains(sc.RejectReqV0, node)
		}
	}
	if sc.FailPre > 0 {
		sc.FailPreBlock = func(node int, h uint32, call int) bool {
			return call <= sc.FailPre && (len(sc.FailNodes) == 0 || slices.Contains(sc.FailNodes, node))
		}
	}
	if sc.FailBlk > 0 {
		sc.FailBlock = func(node int, h uint32, call int) bool {
			return call <= sc.FailBlk && (len(sc.FailNodes) == 0 || slices.Contains(sc.FailNodes, node))
		}
	}
	return sc
}

func (sc *Scenario) validatorsAt(h uint32) []int {
	if len(sc.ValSets) == 0 {
		r := make([]int, sc.N)
		for i := range r {
			r[i] = i
		}
		return r
	}
	i := int(h) - int(sc.ValBase) - 1
	if i < 0 {
		i = 0
	}
	if i >= len(sc.ValSets) {
		i = len(sc.ValSets) - 1
	}
	return sc.ValSets[i]
}

func (sc *Scenario) target() uint32 { return sc.StartHeight + uint32(sc.Heights) }

// Event is one scheduling choice.
type Event struct {
	K string `json:"k"`
	N int    `json:"n"`
	P H      `json:"p,omitempty"` // payload hash / tx hash
	A int    `json:"a,omitempty"`
	B int    `json:"b,omitempty"`
	// cost in deviations (0 for the default choice); filled by enabled()
	Cost int    `json:"-"`
	Desc string `json:"desc,omitempty"`
}

func (e Event) String() string {
	if e.Desc != "" {
		return e.Desc
	}
	return fmt.Sprintf("%s(n%d p%x a%d b%d)", e.K, e.N, uint64(e.P)&0xffff, e.A, e.B)
}
func (e Event) same(o Event) bool { return e.K == o.K && e.N == o.N && e.P == o.P && e.A == o.A && e.B == o.B }

type flight struct {
	dst  int
	p    *Payload
	seq  int
	held bool // postponed until nothing else is deliverable (a slow link)
}

type Violation struct {
	Prop string `json:"property"`
	Key  string `json:"key"`
	Node int    `json:"node"`
	Msg  string `json:"msg"`
}

type World struct {
	sc    *Scenario
	nodes []*Node
	now   time.Time
	net   []flight
	seq   int
	cur   *Node

	decided     map[uint32]H
	decidedView map[uint32]byte
	blocks      map[uint32]*Block
	wire        []*Payload // every distinct payload ever put on the wire
	wireSet     map[H]bool
	got         []map[H]*Payload // per node: payloads delivered to it (for Dup)

	viol     []Violation
	violKeys map[string]bool

	steps     int
	expiries  int
	cutActive bool
	cutDone   bool
	cutLeft   int
	restarted bool
	lastTimeout int // id of the node whose timer fired last (FairTimers)
	weakCert    uint64 // bit h%64: some trusted node accepted a block at height h on a quorum with unverified early commits (known finding)
	byz       *byzState

	// observation log (only when logging is on: samples, C14)
	logOn bool
	log   []string

	stats *Stats

	lastNPR *prepReq // arguments of the latest NewPrepareRequest callback (C15)
	obsOn   bool       // C14: per-node observation sequences with timestamps relative to the epoch
	obs     [][]string
	e2      *e2env
	skips   int
	hist    []Event

	start        time.Time
	newTxDone    int
	lastObs      int // observation lines (broadcasts, timer calls, decisions) produced by the last event
	lagNotify    int // id+1 of the node whose OnNewTransaction notification is still pending (0: none)
	lagSeen      bool // a message has reached that node since the transaction appeared (the notification was outrun)
	lastNewTx    time.Time
	newTxPending bool      // a transaction appeared and no proposal has been made since
	lastProposal time.Time // virtual instant of the latest PrepareRequest broadcast (C16)
	proposals    int
	extendedWaitAtNewTx bool // the primary of the current height was in its extended wait when the transaction appeared
}

// Stats are distinct-outcome counters accumulated across an exploration.
type Stats struct {
	Decisions   map[string]int // "h/view" -> count
	ViewsSeen   map[byte]int
	KindsSent   map[string]int
	Antecedents map[string]int
}

func newStats() *Stats {
	return &Stats{Decisions: map[string]int{}, ViewsSeen: map[byte]int{}, KindsSent: map[string]int{}, Antecedents: map[string]int{}}
}

var curWorld *World

func newWorld(sc *Scenario, st *Stats) *World {
	preDataTxOnly = sc.PreDataTxOnly
	w := &World{sc: sc, decided: map[uint32]H{}, decidedView: map[uint32]byte{}, blocks: map[uint32]*Block{},
		wireSet: map[H]bool{}, violKeys: map[string]bool{}, stats: st}
	if w.stats == nil {
		w.stats = newStats()
	}
	w.now = time.Unix(sc.EpochUnix, 0).UTC()
	w.logOn = forceLog
	w.obsOn = forceObs
	w.obs = make([][]string, len(sc.Kinds))
	curWorld = w
	if sc.ClockNs != 0 {
		w.now = time.Unix(0, sc.ClockNs).UTC()
	}
	w.start = w.now
	genesisTS := uint64(w.now.UnixNano()) - uint64(sc.TimePerBlock)
	if sc.PrevTS != 0 || sc.PrevTSSet {
		genesisTS = sc.PrevTS
	}
	tip := H(0xabc0 + uint64(sc.StartHeight))
	if sc.TipSet {
		tip = sc.TipHash
	}
	for id := 0; id < len(sc.Kinds); id++ {
		n := &Node{id: id, kind: sc.Kinds[id], w: w, height: sc.StartHeight, tip: tip, tipTS: genesisTS,
			known: map[H]bool{}, cvSeen: map[uint32]map[uint16]byte{}}
		pool := sc.Pool
		if pp, ok := sc.Pools[id]; ok {
			pool = pp
		}
		for _, t := range pool {
			if !slices.Contains(sc.Missing[id], t) {
				n.known[t] = true
				n.pool = append(n.pool, t)
			}
		}
		if fp, ok := sc.FreshPools[id]; ok {
			n.pool = append([]H{}, fp...)
			n.known = map[H]bool{}
			for _, t := range sc.FreshKnown[id] {
				n.known[t] = true
			}
		}
		w.nodes = append(w.nodes, n)
		w.got = append(w.got, map[H]*Payload{})
	}
	if sc.Dev.Byz || slices.Contains(sc.Kinds, kByz) {
		w.byz = newByzState(w)
	}
	if sc.E2 != nil {
		if sc.e2cache == nil {
			sc.e2cache = buildE2(w)
		}
		w.e2 = sc.e2cache
	}
	for _, n := range w.nodes {
		if n.kind.real() {
			n.build()
		}
	}
	// Start order: ascending id (Start of one node does not depend on the others)
	for _, n := range w.nodes {
		if n.kind.real() {
			n.Start()
		}
	}
	if w.byz != nil && len(sc.ByzScript) > 0 {
		w.byz.runScript()
	}
	return w
}

func (w *World) violate(prop, key string, n *Node, msg string) {
	if w.violKeys[key] {
		return
	}
	w.violKeys[key] = true
	id := -1
	if n != nil {
		id = n.id
	}
	w.viol = append(w.viol, Violation{prop, key, id, msg})
}

func (w *World) logf(f string, a ...any) {
	if w.logOn {
		w.log = append(w.log, fmt.Sprintf(f, a...))
	}
}

func (w *World) hookNewPrepareRequest(n *Node, ts, nonce uint64, txs []H) {
	w.lastNPR = &prepReq{ts: ts, nonce: nonce, txs: slices.Clone(txs)}
	w.logf("n%d NewPrepareRequest ts=%d txs=%v", n.id, ts, txs)
}
func (w *World) hookTimer(n *Node, op string, h uint32, v byte, d time.Duration) {
	w.logf("n%d Timer.%s(%d,%d,%v)", n.id, op, h, v, d)
	if w.obsOn {
		w.obs[n.id] = append(w.obs[n.id], fmt.Sprintf("Timer.%s(%d,%d,%d)", op, h, v, d))
	}
}

// relTS renders an absolute nanosecond timestamp relative to the scenario's epoch.
func (w *World) relTS(ts uint64) int64 { return int64(ts) - w.start.UnixNano() }

func (w *World) obsPayload(p *Payload) string {
	s := fmt.Sprintf("%s h%d v%d i%d", typeShort[p.typ], p.height, p.view, p.idx)
	switch b := p.body.(type) {
	case *prepReq:
		s += fmt.Sprintf(" ts%+d txs%v", w.relTS(b.ts), b.txs)
	case *changeView:
		s += fmt.Sprintf(" new%d %s ts%+d", b.newView, b.reason, w.relTS(b.ts))
	case *recReq:
		s += fmt.Sprintf(" ts%+d", w.relTS(b.ts))
	case *recMsg:
		var es []string
		for _, e := range b.payloads {
			es = append(es, w.obsPayload(e))
		}
		slices.Sort(es)
		s += fmt.Sprint(es)
	}
	return s
}
func (w *World) hookBroadcast(n *Node, p *Payload) {
	p.atStart = n.curWhat == "Start"
	w.stats.KindsSent[typeShort[p.typ]]++
	w.logf("n%d broadcast %s", n.id, p)
	if w.obsOn {
		w.obs[n.id] = append(w.obs[n.id], "broadcast "+w.obsPayload(p))
	}
	w.oracleBroadcast(n, p)
}

// onDecide: C01 agreement, evaluated on every acceptance by a trusted node.
func (w *World) onDecide(n *Node, b *Block) {
	w.logf("n%d ProcessBlock h%d view%d %s", n.id, b.index, n.d.ViewNumber, b.Hash())
	if w.obsOn {
		w.obs[n.id] = append(w.obs[n.id], fmt.Sprintf("ProcessBlock h%d v%d ts%+d txs%v", b.index, n.d.ViewNumber, w.relTS(b.ts), b.txHashes))
	}
	if !n.trusted() {
		return
	}
	w.stats.Decisions[fmt.Sprintf("h%d/v%d", b.index-w.sc.StartHeight, n.d.ViewNumber)]++
	if w.sc.Oracle == "C09" && w.sc.MaxDecideView >= 0 && int(n.d.ViewNumber) > w.sc.MaxDecideView {
		w.violate("C09", "C09/decided-in-too-high-view", n, fmt.Sprintf("height %d decided in view %d with %d validators silent from the start", b.index, n.d.ViewNumber, w.sc.MaxDecideView))
	}
	if w.sc.Oracle == "C08" && n.d.ViewNumber != 0 {
		w.violate("C08", "C08/decided-in-higher-view", n, fmt.Sprintf("fault-free synchronous run decided height %d in view %d", b.index, n.d.ViewNumber))
	}
	if old, ok := w.decided[b.index]; ok {
		if old != b.Hash() {
			key := "C01/two-blocks-one-height"
			if w.weakCert&(1<<(uint64(b.index)%64)) != 0 {
				// one of the two decisions was taken on a quorum containing commits that were stored before the proposal
				// was known and never verified (the known finding C02/unverified-commit/stored-without-header/no-amev)
				key = "C01/two-blocks-one-height/unverified-early-commit-counted/no-amev"
			}
			w.violate("C01", key, n, fmt.Sprintf("height %d: block %s accepted by node %d, block %s accepted earlier", b.index, b.Hash(), n.id, old))
		}
	} else {
		w.decided[b.index] = b.Hash()
		w.decidedView[b.index] = n.d.ViewNumber
		w.blocks[b.index] = b
	}
}

// send puts a broadcast payload in flight to every other participant.
func (w *World) send(from *Node, p *Payload) {
	p.srcNode = from.id
	if !w.wireSet[p.Hash()] {
		w.wireSet[p.Hash()] = true
		w.wire = append(w.wire, p)
	}
	for _, n := range w.nodes {
		if n.id == from.id || !n.live() {
			continue
		}
		if w.cutActive && (slices.Contains(w.sc.CutSet, n.id) != slices.Contains(w.sc.CutSet, from.id) || slices.Contains(w.sc.CutSet, n.id)) {
			continue // lost: a cut-off node neither sends nor receives
		}
		if len(w.sc.LossyLinks) > 0 && slices.Contains(w.sc.LossyLinks, [2]int{from.id, n.id}) {
			continue // lost: this directed link drops everything
		}
		w.seq++
		w.net = append(w.net, flight{dst: n.id, p: p, seq: w.seq})
	}
}

// inject puts a payload from a scripted member in flight to chosen destinations.
func (w *World) inject(p *Payload, dsts []int) {
	p.srcNode = -1
	if !w.wireSet[p.Hash()] {
		w.wireSet[p.Hash()] = true
		w.wire = append(w.wire, p)
	}
	for _, d := range dsts {
		if w.nodes[d].live() {
			w.seq++
			w.net = append(w.net, flight{dst: d, p: p, seq: w.seq})
		}
	}
}

func (w *World) heights() []uint32 {
	var r []uint32
	for _, n := range w.nodes {
		r = append(r, n.height)
	}
	return r
}

func (w *World) liveValidator(n *Node) bool {
	return n.live() && n.d != nil && n.isValidator()
}

// done: every trusted real node that takes part reached the target height.
func (w *World) done() bool {
	for _, n := range w.nodes {
		if n.kind.real() && n.height < w.sc.target() {
			return false
		}
	}
	return true
}

func (n *Node) wantsTimer() bool {
	c := n.ctx()
	return n.isValidator() && n.height < c.BlockIndex && n.t.armed && !n.t.consumed && c.ViewNumber < n.sc().MaxView+0 &&
		n.t.h == c.BlockIndex && n.t.v == c.ViewNumber
}

// lagging: the node's next block is already decided by someone else and the node is not about to process it itself.
func (w *World) lagging(n *Node) bool {
	if !n.live() || n.pendingReset {
		return false
	}
	_, ok := w.blocks[n.height+1]
	if !ok {
		return false
	}
	// last resort only: consensus at that height cannot complete any more because fewer than M validators remain there
	// (otherwise the node is expected to catch up from recovery messages)
	vals := w.sc.validatorsAt(n.height + 1)
	nv := len(vals)
	m := nv - (nv-1)/3
	still := 0
	for _, o := range w.nodes {
		if o.live() && o.height == n.height && slices.Contains(vals, o.id) {
			still++
		}
	}
	if still >= m {
		return false
	}
	return true
}

// enabled lists the events possible now; the first one is the default (cost 0).
func (w *World) enabled() []Event {
	if w.sc.E2 != nil {
		return w.e2Enabled()
	}
	if w.done() || w.steps >= w.sc.MaxDepth {
		return nil
	}
	sc := w.sc
	var evs []Event
	def := func(e Event) { e.Cost = 0; evs = append(evs, e) }
	alt := func(e Event) { e.Cost = 1; evs = append(evs, e) }
	add := func(e Event, isDefault bool) {
		if isDefault {
			def(e)
		} else {
			alt(e)
		}
	}
	have := false // default already chosen

	// 1. application resets
	resetPending := false
	var heldResets []Event
	for _, n := range w.nodes {
		if n.live() && n.pendingReset {
			resetPending = true
			if n.resetHeld {
				heldResets = append(heldResets, Event{K: "reset", N: n.id})
				continue
			}
			add(Event{K: "reset", N: n.id}, !have)
			have = true
			if sc.Dev.Hold && sc.Heights > 1 {
				alt(Event{K: "hold", N: n.id, A: 1})
			}
		}
	}
	// 2. transaction supplies (TxLast: the application fetches slowly, a supply is the default only when nothing is deliverable)
	txOffered := false
	var lateTx []Event
	for _, n := range w.nodes {
		if !n.live() || n.d == nil {
			continue
		}
		m := n.m
		if m == nil || !m.reqActive || m.height != n.d.BlockIndex {
			continue
		}
		var hs []H
		for h := range m.requested {
			hs = append(hs, h)
		}
		slices.Sort(hs)
		for _, h := range hs {
			txOffered = true
			if sc.TxLast {
				lateTx = append(lateTx, Event{K: "tx", N: n.id, P: h})
			} else {
				add(Event{K: "tx", N: n.id, P: h}, !have)
				have = true
			}
			if !sc.Dev.TxOrder {
				break
			}
		}
	}
	if w.lagNotify > 0 && w.lagSeen {
		// the delayed notification has been outrun by one message: by default it arrives now
		add(Event{K: "newtx", N: w.lagNotify - 1, A: 2}, !have)
		have = true
	}
	// 3. deliveries, oldest first; held messages only when nothing else is deliverable
	seen := map[[2]uint64]bool{}
	anyFree := false
	for _, f := range w.net {
		if !f.held {
			anyFree = true
		}
	}
	for _, f := range w.net {
		if f.held && (anyFree || have) {
			continue
		}
		k := [2]uint64{uint64(f.dst), uint64(f.p.Hash())}
		if seen[k] {
			continue
		}
		seen[k] = true
		e := Event{K: "deliver", N: f.dst, P: f.p.Hash()}
		if !have {
			def(e)
			have = true
		} else if sc.Dev.Reorder {
			alt(e)
		}
	}
	if sc.Dev.Hold {
		hs := map[[2]uint64]bool{}
		for _, f := range w.net {
			k := [2]uint64{uint64(f.dst), uint64(f.p.Hash())}
			if !f.held && !hs[k] {
				hs[k] = true
				alt(Event{K: "hold", N: f.dst, P: f.p.Hash()})
			}
		}
	}
	for _, e := range lateTx {
		add(e, !have)
		have = true
	}
	for _, e := range heldResets {
		// a held Reset happens once nothing else is deliverable (before any further timer)
		add(e, !have)
		have = true
	}
	if w.lagNotify > 0 && !w.lagSeen {
		// nothing has reached the node yet: the notification arrives once the traffic of this instant is through (or, as a deviation, in between)
		add(Event{K: "newtx", N: w.lagNotify - 1, A: 2}, !have)
		have = true
	}
	quiescent := !have
	onlyResets := resetPending && len(w.net) == 0 && !txOffered
	// 4. ledger sync of lagging nodes
	if sc.Dev.Sync || sc.SyncDefault {
		for _, n := range w.nodes {
			if w.lagging(n) {
				if sc.SyncDefault && !have {
					def(Event{K: "sync", N: n.id})
					have = true
				} else if sc.Dev.Sync {
					alt(Event{K: "sync", N: n.id})
				}
			}
		}
	}
	// 5. timers
	if sc.Timed && sc.Dev.Tick && len(w.net) > 0 {
		ok := true
		nt := w.now.Add(time.Second)
		for _, n := range w.nodes {
			if n.live() && n.wantsTimer() && !n.t.deadline().After(nt) {
				ok = false
			}
		}
		if w.newTxDone < len(sc.NewTxAt) && !w.start.Add(time.Duration(sc.NewTxAt[w.newTxDone])*time.Millisecond).After(nt) {
			ok = false
		}
		if ok {
			alt(Event{K: "tick", N: 0})
		}
	}
	if sc.Timed && !quiescent && w.newTxDone < len(sc.NewTxAt) && sc.Dev.Reorder {
		// a transaction that is due now may enter the pools while the messages of this instant are still in flight
		if t := w.start.Add(time.Duration(sc.NewTxAt[w.newTxDone]) * time.Millisecond); !t.After(w.now) {
			alt(Event{K: "newtx", N: 0, P: H(900 + w.newTxDone), A: 1})
			w.lagVariants(alt)
		}
	}
	if sc.Timed {
		if sc.Dev.SlowReset && onlyResets && !w.slowResetUsed() {
			// an application that is a little slow: the proposal timer of the next primary may fire while one other
			// node's Reset is still pending (the next-height traffic then reaches that node early and is cached);
			// no other timer may pass before the Reset, otherwise the node would count as silent, not as slow
			for _, n := range w.nodes {
				if n.live() && !n.pendingReset && n.wantsTimer() && n.ctx().IsPrimary() && !n.ctx().RequestSentOrReceived() {
					late := false
					for _, o := range w.nodes {
						if o.live() && o.id != n.id && !o.pendingReset && o.wantsTimer() && o.t.deadline().Before(n.t.deadline()) {
							late = true
						}
					}
					if !late {
						alt(Event{K: "timeout", N: n.id})
					}
				}
			}
		}
		if quiescent && !have {
			// advance to the earliest deadline; all nodes sharing it may fire in any order
			var best time.Time
			found := false
			for _, n := range w.nodes {
				if n.live() && n.wantsTimer() {
					if d := n.t.deadline(); !found || d.Before(best) {
						best, found = d, true
					}
				}
			}
			// a transaction scheduled to appear before (or at) the earliest deadline comes first / concurrently
			if w.newTxDone < len(sc.NewTxAt) {
				t := w.start.Add(time.Duration(sc.NewTxAt[w.newTxDone]) * time.Millisecond)
				if !found || !t.After(best) {
					add(Event{K: "newtx", N: 0, P: H(900 + w.newTxDone), A: 1}, !have)
					w.lagVariants(alt)
					have = true
					if found && t.Before(best) {
						found = false // the timers are not due yet
					}
				}
			}
			if found && (sc.HorizonExpiries == 0 || w.expiries < sc.HorizonExpiries) {
				if best.Before(w.now) {
					best = w.now
				}
				for _, n := range w.nodes {
					if n.live() && n.wantsTimer() && !n.t.deadline().After(best) {
						add(Event{K: "timeout", N: n.id}, !have)
						have = true
					}
				}
			}
		}
	} else {
		if quiescent || sc.Dev.Premature {
			type cand struct {
				n *Node
				d time.Duration
			}
			var cs []cand
			for _, n := range w.nodes {
				if n.live() && n.wantsTimer() {
					cs = append(cs, cand{n, n.t.d})
				}
			}
			if sc.FairTimers {
				nn := len(w.nodes)
				sort.SliceStable(cs, func(i, j int) bool {
					return (cs[i].n.id-w.lastTimeout-1+2*nn)%nn < (cs[j].n.id-w.lastTimeout-1+2*nn)%nn
				})
			} else {
				sort.SliceStable(cs, func(i, j int) bool { return cs[i].d < cs[j].d })
			}
			for _, c := range cs {
				if quiescent && !have {
					def(Event{K: "timeout", N: c.n.id})
					have = true
				} else {
					alt(Event{K: "timeout", N: c.n.id})
				}
			}
		}
	}
	// 6. pure deviations
	if sc.Dev.Dup {
		for _, n := range w.nodes {
			if !n.live() {
				continue
			}
			var hs []H
			for h, p := range w.got[n.id] {
				if p.height >= n.d.BlockIndex {
					hs = append(hs, h)
				}
			}
			slices.Sort(hs)
			for _, h := range hs {
				alt(Event{K: "dup", N: n.id, P: h})
			}
		}
	}
	if sc.Dev.Stale {
		for _, n := range w.nodes {
			if !n.live() {
				continue
			}
			c := n.ctx()
			if !n.isValidator() {
				// a watch-only node never arms its timer; a spurious OnTimeout for its own epoch must still be harmless
				alt(Event{K: "stale", N: n.id, A: int(c.BlockIndex), B: int(c.ViewNumber)})
				continue
			}
			if c.ViewNumber > 0 {
				alt(Event{K: "stale", N: n.id, A: int(c.BlockIndex), B: int(c.ViewNumber) - 1})
			}
			alt(Event{K: "stale", N: n.id, A: int(c.BlockIndex) - 1, B: 0})
			alt(Event{K: "stale", N: n.id, A: int(c.BlockIndex), B: int(c.ViewNumber) + 1})
		}
	}
	if sc.Dev.Perm {
		for _, n := range w.nodes {
			if n.live() {
				for mode := 0; mode < 3; mode++ {
					if mode != n.permMode {
						alt(Event{K: "perm", N: n.id, A: mode})
					}
				}
			}
		}
	}
	if sc.Dev.Restart {
		for _, n := range w.nodes {
			if n.kind == kAmnesia && n.incarnation < 2 {
				alt(Event{K: "restart", N: n.id})
			}
		}
	}
	if sc.Dev.Byz && w.byz != nil {
		evs = append(evs, w.byz.menu()...)
	}
	if sc.Mode == "focus" {
		evs = w.focusFilter(evs)
	}
	return evs
}

// focusFilter: nodes outside the focus set process eagerly in default order;
// every interleaving of events at focus nodes is explored.
func (w *World) focusFilter(evs []Event) []Event {
	if len(evs) == 0 {
		return evs
	}
	for _, e := range evs {
		if !slices.Contains(w.sc.Focus, e.N) && (e.K == "deliver" || e.K == "reset" || e.K == "tx") {
			e.Cost = 0
			return []Event{e}
		}
	}
	return evs
}

// endCheck is the terminal-state oracle of the liveness-flavoured properties (C08, C09, C16).
func (w *World) endCheck() {
	o := w.sc.Oracle
	if o == "" || w.done() || w.steps >= w.sc.MaxDepth || len(w.enabled()) != 0 {
		return
	}
	key := o + "/stuck"
	// classify: a validator that restarted with empty state proposed again for an epoch it had already proposed for
	seenProp := map[[3]uint64]H{}
	for _, p := range w.wire {
		if p.typ == dbft.PrepareRequestType && p.srcNode >= 0 && w.nodes[p.srcNode].kind == kAmnesia {
			k := [3]uint64{uint64(p.height), uint64(p.view), uint64(p.srcNode)}
			if old, ok := seenProp[k]; ok && old != p.Hash() {
				if p.atStart {
					// the known dBFT 2.0 gap: Start of a restarted primary proposes at once, before it can learn its earlier proposal
					key = o + "/stuck/restarted-primary-reproposed"
				} else if key == o+"/stuck" {
					// it had every chance to learn its earlier proposal from recovery messages and proposed again all the same
					key = o + "/stuck/restarted-primary-reproposed-after-recovery"
				}
			}
			seenProp[k] = p.Hash()
		}
	}
	w.violate(o, key, nil, fmt.Sprintf("no event enabled (horizon of %d timer expiries reached, or deadlock) and not every live node reached the target height %d; ledger heights %v, views %v",
		w.sc.HorizonExpiries, w.sc.target(), w.heights(), w.views()))
}

func (w *World) views() []int {
	var r []int
	for _, n := range w.nodes {
		if n.live() && n.d != nil {
			r = append(r, int(n.d.ViewNumber))
		} else {
			r = append(r, -1)
		}
	}
	return r
}

// slowResetUsed: at most one node may lag with its Reset at a time (the others must have re-initialised).
func (w *World) slowResetUsed() bool {
	pend := 0
	for _, n := range w.nodes {
		if n.live() && n.pendingReset {
			pend++
		}
	}
	return pend != 1
}

// live: the node has a running library instance.
func (n *Node) live() bool { return n.kind.real() && !n.crashed }

func (w *World) find(dst int, h H, remove bool) *Payload {
	for i, f := range w.net {
		if f.dst == dst && f.p.Hash() == h {
			if remove {
				w.net = append(w.net[:i:i], w.net[i+1:]...)
			}
			return f.p
		}
	}
	return nil
}

// apply executes one event. It panics with harnessFault if the event is not enabled (replay divergence).
func (w *World) apply(e Event) {
	curWorld = w
	obs0 := 0
	for _, o := range w.obs {
		obs0 += len(o)
	}
	defer func() {
		w.lastObs = -obs0
		for _, o := range w.obs {
			w.lastObs += len(o)
		}
	}()
	w.steps++
	w.hist = append(w.hist, e)
	n := w.nodes[e.N]
	if w.logOn {
		w.logf("== %s", w.describe(e))
	}
	switch e.K {
	case "deliver":
		p := w.find(e.N, e.P, true)
		if p == nil {
			panic(harnessFault{"replay divergence: deliver of a payload that is not in flight: " + e.String()})
		}
		w.got[e.N][e.P] = p
		if w.lagNotify == e.N+1 {
			w.lagSeen = true
		}
		n.Receive(p)
	case "hold":
		if e.A == 1 {
			if !n.pendingReset || n.resetHeld {
				panic(harnessFault{"replay divergence: hold of a Reset that is not pending: " + e.String()})
			}
			n.resetHeld = true
			break
		}
		ok := false
		for i := range w.net {
			if w.net[i].dst == e.N && w.net[i].p.Hash() == e.P && !w.net[i].held {
				w.net[i].held = true
				ok = true
				break
			}
		}
		if !ok {
			panic(harnessFault{"replay divergence: hold of a payload that is not in flight: " + e.String()})
		}
	case "dup":
		p := w.got[e.N][e.P]
		if p == nil {
			panic(harnessFault{"replay divergence: dup of a payload never delivered: " + e.String()})
		}
		n.Receive(p)
	case "timeout":
		if !n.wantsTimer() {
			panic(harnessFault{"replay divergence: timeout not enabled: " + e.String()})
		}
		if w.sc.Timed {
			if d := n.t.deadline(); d.After(w.now) {
				w.now = d
				for _, o := range w.nodes {
					o.fpValid = false
				}
			}
		}
		w.expiries++
		w.lastTimeout = n.id
		w.stats.Antecedents["timeout"]++
		n.Timeout(n.t.h, n.t.v)
		w.afterExpiry()
	case "stale":
		n.Timeout(uint32(e.A), byte(e.B))
	case "reset":
		if !n.pendingReset {
			panic(harnessFault{"replay divergence: reset not pending: " + e.String()})
		}
		n.Reset()
	case "tx":
		n.SupplyTx(e.P)
	case "txpool":
		n.known[e.P] = true
	case "twin":
		w.twinCheck(nil)
	case "epochs":
		w.steps--
		if key, msg := c14Compare(w.sc, w.hist[:len(w.hist)-1]); key != "" {
			w.violate("C14", key, nil, msg)
		}
	case "tick":
		w.now = w.now.Add(time.Second)
		for _, o := range w.nodes {
			o.fpValid = false
		}
	case "watch":
		n.watchNow = true
	case "detcheck":
		w.steps--
		w.detCheck()
	case "endcheck":
		w.steps-- // not a scheduling step
		w.endCheck()
	case "sweep":
		ins := sweepInputs(n)
		if e.A >= len(ins) {
			panic(harnessFault{"replay divergence: sweep input index out of range"})
		}
		if w.logOn {
			w.logf("== inadmissible input: %s", ins[e.A])
		}
		if key, msg := n.applySweep(ins[e.A]); key != "" {
			w.violate("C11", key, n, msg)
		}
	case "newtx":
		if e.A == 2 {
			if w.lagNotify != e.N+1 {
				panic(harnessFault{"replay divergence: no delayed notification pending for this node"})
			}
			w.lagNotify, w.lagSeen = 0, false
			if o := w.nodes[e.N]; o.live() {
				o.NewTxNotify()
			}
			break
		}
		if e.A == 1 {
			if w.newTxDone >= len(w.sc.NewTxAt) {
				panic(harnessFault{"replay divergence: no transaction scheduled"})
			}
			t := w.start.Add(time.Duration(w.sc.NewTxAt[w.newTxDone]) * time.Millisecond)
			if t.After(w.now) {
				w.now = t
				for _, o := range w.nodes {
					o.fpValid = false
				}
			}
			w.newTxDone++
			w.lastNewTx = w.now
			w.newTxPending = true
			w.extendedWaitAtNewTx = false
			for _, o := range w.nodes {
				if o.live() && o.d != nil && o.ctx().IsPrimary() && !o.ctx().RequestSentOrReceived() && txSubscribed(o) && !o.pendingReset {
					w.extendedWaitAtNewTx = true
					w.stats.Antecedents["new-transaction-during-extended-wait"]++
				}
			}
		}
		for _, o := range w.nodes {
			if o.live() {
				o.known[e.P] = true
				o.pool = append(o.pool, e.P)
			}
		}
		for _, o := range w.nodes {
			if o.live() && o.id != e.B-1 {
				o.NewTxNotify()
			}
		}
		if e.B > 0 {
			w.lagNotify = e.B
		}
	case "sync":
		w.syncNode(n)
	case "perm":
		n.permMode = e.A
	case "restart":
		w.restart(n)
	case "byz":
		w.byz.apply(e)
	case "inj":
		w.e2Apply(e)
	case "skip":
		// the ledger advanced by two blocks obtained elsewhere (sync); the application re-initialises consensus
		w.skips++
		by := uint32(2)
		if e.A == 1 || e.A == 2 {
			by = 1
		}
		if e.A == 2 {
			// ledger first, Reset later
			n.height += by
			n.tip = H(0x5100 + uint64(n.height))
			n.tipTS += uint64(by) * uint64(w.sc.TimePerBlock)
			n.pendingReset, n.ledgerAhead = true, true
			break
		}
		n.height += by
		n.tip = H(0x5100 + uint64(n.height))
		n.tipTS += uint64(by) * uint64(w.sc.TimePerBlock)
		n.pendingReset = true
		n.Reset()
	default:
		panic(harnessFault{"unknown event kind " + e.K})
	}
	n.fpValid = false
	w.oracleAfterEvent(e)
	// scripted faults of liveness scenarios take effect after the event with the given ordinal
	if sc := w.sc; len(sc.CutSet) > 0 && w.steps == sc.CutAt && !w.cutDone {
		w.cutDone, w.cutActive, w.cutLeft = true, true, sc.CutExp
		// whatever is in flight to or from a cut-off node is lost
		w.net = slices.DeleteFunc(w.net, func(f flight) bool {
			return slices.Contains(sc.CutSet, f.dst) || (f.p.srcNode >= 0 && slices.Contains(sc.CutSet, f.p.srcNode))
		})
		if w.cutLeft <= 0 {
			w.cutActive = false
		}
	}
	if sc := w.sc; sc.RestartAt > 0 && w.steps == sc.RestartAt && !w.restarted {
		w.restarted = true
		w.restart(w.nodes[sc.RestartNode])
	}
}

func (w *World) afterExpiry() {
	if w.cutActive {
		w.cutLeft--
		if w.cutLeft <= 0 {
			w.cutActive = false
		}
	}
}

func (w *World) syncNode(n *Node) {
	// the application fetched the missing blocks from peers, then re-initialises consensus
	top := n.height
	for {
		b, ok := w.blocks[top+1]
		if !ok {
			break
		}
		top++
		n.tip, n.tipTS = b.Hash(), b.ts
		n.pool = slices.DeleteFunc(n.pool, func(h H) bool { return slices.Contains(b.txHashes, h) })
	}
	if top == n.height {
		panic(harnessFault{"replay divergence: sync without a newer block"})
	}
	n.height = top
	n.pendingReset = true
	n.Reset()
}

func (w *World) restart(n *Node) {
	n.incarnation++
	n.pendingReset = false
	n.build()
	n.cvSeen = map[uint32]map[uint16]byte{}
	w.got[n.id] = map[H]*Payload{}
	n.Start()
}

func (w *World) describe(e Event) string {
	switch e.K {
	case "deliver", "dup":
		var p *Payload
		if e.K == "deliver" {
			p = w.find(e.N, e.P, false)
		} else {
			p = w.got[e.N][e.P]
		}
		if p != nil {
			return fmt.Sprintf("%s to n%d: %s", e.K, e.N, p)
		}
	case "timeout":
		n := w.nodes[e.N]
		return fmt.Sprintf("timeout n%d (h%d v%d)", e.N, n.t.h, n.t.v)
	case "stale":
		return fmt.Sprintf("stale timeout n%d (h%d v%d)", e.N, e.A, e.B)
	case "byz":
		if w.byz != nil {
			return w.byz.describe(e)
		}
	case "inj":
		if w.e2 != nil && e.A < len(w.e2.syms) {
			return "env hands X: " + w.e2.syms[e.A].name
		}
	}
	return e.String()
}

// ------------------------------------------------------------ state key

func (w *World) key() [2]uint64 {
	s := newHasher()
	s2 := newHasher()
	s2.b(0x77)
	put := func(x uint64) { s.u64(x); s2.u64(x * 0x9e3779b97f4a7c15) }
	for _, n := range w.nodes {
		put(uint64(n.kind))
		if !n.kind.real() {
			continue
		}
		if n.crashed {
			put(0xdead)
			continue
		}
		if !n.fpValid {
			n.fpCache = fingerprint(n, fpNoSkip)
			n.fpValid = true
		}
		put(n.fpCache)
		put(n.appKey())
	}
	if w.sc.Twin && w.sc.E2 != nil {
		// the twin oracles compare histories: which payloads of later heights the node has been handed so far is part
		// of the state (a node that wrongly forgets one would otherwise fall back into an already known state and the
		// history would never be extended to the Reset that exposes it)
		if x := w.e2X(); x.d != nil && !x.crashed {
			var hs []uint64
			for h, p := range w.got[x.id] {
				if p.height > x.d.BlockIndex {
					hs = append(hs, uint64(h))
				}
			}
			slices.Sort(hs)
			put(uint64(len(hs)))
			for _, h := range hs {
				put(h)
			}
		}
	}
	// network: in k-bounded mode the order (rank) matters for the default schedule
	if w.sc.Mode == "kbound" {
		put(uint64(len(w.net)))
		for _, f := range w.net {
			put(uint64(f.dst))
			put(uint64(f.p.Hash()))
			if f.held {
				put(7)
			}
		}
	} else {
		var xs []uint64
		for _, f := range w.net {
			x := uint64(f.p.Hash())*31 + uint64(f.dst)
			if f.held {
				x ^= 0x8000000000000000
			}
			xs = append(xs, x)
		}
		slices.Sort(xs)
		put(uint64(len(xs)))
		for _, x := range xs {
			put(x)
		}
	}
	var hs []uint32
	for h := range w.decided {
		hs = append(hs, h)
	}
	slices.Sort(hs)
	for _, h := range hs {
		put(uint64(h))
		put(uint64(w.decided[h]))
	}
	if w.sc.Timed {
		put(uint64(w.now.UnixNano()))
		put(uint64(w.expiries))
		put(uint64(w.newTxDone))
		put(uint64(w.lagNotify))
		if w.lagSeen {
			put(7)
		}
		if w.newTxPending {
			put(1)
		}
		put(uint64(w.lastProposal.UnixNano()))
	}
	if w.cutActive {
		put(uint64(1000 + w.cutLeft))
	}
	if w.cutDone {
		put(3)
	}
	if w.restarted {
		put(5)
	}
	if w.sc.FairTimers {
		put(uint64(100 + w.lastTimeout))
	}
	if w.weakCert != 0 {
		put(w.weakCert)
	}
	if w.sc.E2 != nil {
		put(uint64(w.skips))
		// dynamic symbols depend on X's own proposals seen on the wire
		for _, p := range w.wire {
			if p.typ == dbft.PrepareRequestType && p.srcNode == w.sc.E2.X {
				put(uint64(p.Hash()))
			}
		}
	}
	if w.byz != nil {
		put(w.byz.key())
	}
	if w.sc.Dev.Dup {
		for _, n := range w.nodes {
			var xs []uint64
			for h := range w.got[n.id] {
				xs = append(xs, uint64(h))
			}
			slices.Sort(xs)
			put(uint64(len(xs)))
			for _, x := range xs {
				put(x)
			}
		}
	}
	return [2]uint64{s.sum(), s2.sum()}
}

// appKey hashes the application/timer/monitor record of a node.
func (n *Node) appKey() uint64 {
	s := newHasher()
	s.u64(uint64(n.height))
	s.u64(uint64(n.tip))
	s.u64(n.tipTS)
	switch {
	case n.pendingReset && n.resetHeld:
		s.b(2)
	case n.pendingReset:
		s.b(1)
	default:
		s.b(0)
	}
	s.u64(uint64(n.incarnation))
	if n.earlierLife {
		s.b(0xe1)
	}
	if n.watchNow {
		s.b(0xe5)
	}
	if n.ledgerAhead {
		s.b(0xe2)
	}
	if n.foreignEarly {
		s.b(0xe3)
	}
	if n.subActive && n.sc().OneShotSub {
		s.b(0xe4)
	}
	s.u64(uint64(n.permMode))
	s.u64(uint64(len(n.pool)))
	for _, h := range n.pool {
		s.u64(uint64(h))
	}
	var ks []H
	for h := range n.known {
		ks = append(ks, h)
	}
	slices.Sort(ks)
	for _, h := range ks {
		s.u64(uint64(h))
	}
	// timer
	t := n.t
	s.u64(uint64(t.h))
	s.b(t.v)
	if t.armed {
		s.b(1)
	}
	if t.consumed {
		s.b(2)
	}
	if n.sc().Timed {
		s.u64(uint64(t.deadline().Sub(n.w.now)))
	}
	// monitor memory
	if m := n.m; m != nil {
		s.u64(uint64(m.height))
		hm := func(mm map[byte]H) {
			var ks []int
			for k := range mm {
				ks = append(ks, int(k))
			}
			sort.Ints(ks)
			for _, k := range ks {
				s.b(byte(k))
				s.u64(uint64(mm[byte(k)]))
			}
			s.b(0xff)
		}
		hm(m.sentReq)
		hm(m.sentResp)
		if m.hasCommit {
			s.u64(uint64(m.sentCommit))
		}
		if m.hasPreC {
			s.u64(uint64(m.sentPreC))
		}
		if m.locked {
			s.b(1)
			s.b(m.lockView)
		}
		s.b(m.maxSentView)
		s.u64(uint64(m.preBlockOK))
		s.u64(uint64(m.preBlockCall))
		s.u64(uint64(m.blockOK))
		s.u64(uint64(m.blockCall))
		s.u64(uint64(m.signCalls))
		s.u64(uint64(m.setDataCalls))
		hb := func(mm map[H]bool) {
			var ks []H
			for k := range mm {
				ks = append(ks, k)
			}
			slices.Sort(ks)
			for _, k := range ks {
				s.u64(uint64(k))
				if mm[k] {
					s.b(1)
				} else {
					s.b(0)
				}
			}
			s.b(0xfe)
		}
		hb(m.verifiedOK)
		hb(m.commitVer)
		hb(m.preCVer)
		hb(m.requested)
		if m.reqActive {
			s.b(1)
			s.b(m.reqView)
		}
	}
	var hs []uint32
	for h := range n.cvSeen {
		hs = append(hs, h)
	}
	slices.Sort(hs)
	for _, h := range hs {
		s.u64(uint64(h))
		var is []int
		for i := range n.cvSeen[h] {
			is = append(is, int(i))
		}
		sort.Ints(is)
		for _, i := range is {
			s.u64(uint64(i))
			s.b(n.cvSeen[h][uint16(i)])
		}
	}
	return s.sum()
}

// lagVariants offers, for the transaction that is due now, the variants in which one node's notification lags behind.
func (w *World) lagVariants(alt func(Event)) {
	if !w.sc.Dev.NotifyLag || w.lagNotify > 0 {
		return
	}
	for _, o := range w.nodes {
		if o.live() && o.d != nil {
			alt(Event{K: "newtx", N: 0, P: H(900 + w.newTxDone), A: 1, B: o.id + 1})
		}
	}
}
