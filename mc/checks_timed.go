package main

import (
	"slices"
	"fmt"
	"strings"
	"time"
)

func timedScen(name string, n int, oracle string, opts ...opt) *Scenario {
	sc := scen(name, n, opts...)
	sc.Timed = true
	sc.Oracle = oracle
	sc.Dev = Dev{Reorder: true, Dup: true, Perm: true, Hold: true, SlowReset: true}
	sc.MaxView = 3
	return sc
}

func withDyn(ratioTenths int) opt {
	return func(s *Scenario) {
		if ratioTenths > 0 {
			s.MaxTimePerBlock = time.Duration(ratioTenths) * 10 * time.Second / 10
		}
	}
}
func withPool(p ...H) opt   { return func(s *Scenario) { s.Pool = p } }
func withNewTx(ms ...int) opt { return func(s *Scenario) { s.NewTxAt = ms } }
func withHorizon(e int) opt  { return func(s *Scenario) { s.HorizonExpiries = e } }

func c08Jobs(tier string) []*Job {
	var jobs []*Job
	per := 120
	if tier == "thorough" {
		per = 1800
	}
	for _, n := range []int{1, 2, 3, 4, 5, 6, 7} {
		for _, a := range []int64{-1, 0, 6} {
			for _, dyn := range []int{0, 20} {
				if n >= 5 && (a != -1 || dyn != 0) {
					continue
				}
				if a == 6 && dyn != 0 {
					continue
				}
				k := 2
				switch {
				case n <= 3:
					k = 3
				case n == 4:
					k = 2
				case n >= 6:
					k = 1
				}
				if tier == "thorough" && n < 7 {
					k++
				}
				heights := 2
				if a == 6 {
					heights = 3
				}
				sc := timedScen(fmt.Sprintf("C08-N%d-%s-dyn%d", n, amevName(a), dyn), n, "C08", withAMEV(a), withDyn(dyn), withHeights(heights), withK(k), withHorizon(heights*3+2))
				if dyn != 0 {
					// a pending transaction and an idle chain both have to decide in view 0
					jobs = append(jobs, job(sc, per))
					idle := timedScen(fmt.Sprintf("C08-N%d-%s-dyn%d-idle", n, amevName(a), dyn), n, "C08", withAMEV(a), withDyn(dyn), withHeights(heights), withK(k), withHorizon(heights*4+2), withPool())
					jobs = append(jobs, job(idle, per))
					if n == 2 || n == 4 {
						// an idle height (empty block at the maximum) followed by a busy one: the transaction appears at the
						// instant of the empty proposal, in every order relative to it; maximum = 3 x minimum
						for _, at := range []int{30_000, 12_500} {
							mixed := timedScen(fmt.Sprintf("C08-N%d-%s-dyn30-idle-then-tx-at-%ds", n, amevName(a), at/1000), n, "C08", withAMEV(a), withDyn(30), withHeights(3), withK(k), withHorizon(3*4+2), withPool(), withNewTx(at))
							mixed.Dev.NotifyLag = true
							jobs = append(jobs, job(mixed, per))
						}
					}
					continue
				}
				jobs = append(jobs, job(sc, per))
			}
		}
	}
	// a backup whose pool lacks a proposed transaction (fetched on request) is not a fault either
	for _, a := range []int64{-1, 0} {
		p0 := primaryAt(5, 0, 4)
		ms := timedScen(fmt.Sprintf("C08-N4-%s-backup-fetches-a-transaction", amevName(a)), 4, "C08", withAMEV(a), withHeights(2), withK(2), withHorizon(2*3+2), withMissing((p0+1)%4, 101))
		jobs = append(jobs, job(ms, per))
		// ... slowly (the others run ahead meanwhile), and its verifier looks at the transactions attached to the block
		sl := timedScen(fmt.Sprintf("C08-N4-%s-backup-fetches-a-transaction-slowly", amevName(a)), 4, "C08", withAMEV(a), withHeights(2), withK(2), withHorizon(2*3+2), withMissing((p0+1)%4, 101))
		sl.TxLast, sl.StrictVerify = true, true
		jobs = append(jobs, job(sl, per))
	}
	// unbounded: every interleaving at two focus nodes, N=4, one height (others process eagerly in default order)
	for _, f := range [][]int{{0, 1}, {1, 2}, {2, 3}, {0, 3}} {
		sc := timedScen(fmt.Sprintf("C08-N4-focus-%d-%d", f[0], f[1]), 4, "C08", withMode("focus", f...), withHeights(1), withHorizon(4))
		sc.Dev.Dup, sc.Dev.Perm = false, false
		jobs = append(jobs, job(sc, per))
	}
	// open environment, saturation: ONE real node receives the complete message set of a fault-free round (proposal,
	// every peer's response, pre-commit, commit; each exactly once, no timer can fire: zero-time delivery) in EVERY
	// order; in every terminal state (everything delivered) it must have accepted the block. For N>=4 every such order
	// is realisable in a fault-free synchronous run because the other N-1>=M validators proceed without X.
	for _, n := range []int{4, 5, 6, 7} {
		for _, a := range []int64{-1, 0} {
			h := uint32(5)
			prim := primaryAt(h, 0, n)
			for _, x := range []int{(prim + 1) % n, prim} {
				sp := E2Spec{Views: 1, Proposals: "A", Responses: "AO", Commits: "AO", NoTimeout: true, Once: true, MaxDepth: 40, StateCap: 1_500_000}
				if a >= 0 {
					sp.PreCommits = "AO"
				}
				if tier == "thorough" {
					sp.StateCap = 30_000_000
				}
				role := "backup"
				if x == prim {
					role = "primary"
				}
				sc := e2scen(fmt.Sprintf("C08-any-order-at-one-node-N%d-x%d-%s-%s", n, x, role, amevName(a)), n, x, a, sp)
				sc.Oracle = "C08"
				sc.Missing, sc.BadTx = map[int][]H{}, map[int][]H{}
				jobs = append(jobs, job(sc, per))
			}
		}
	}
	if tier == "thorough" {
		for _, n := range []int{2, 3} {
			sc := timedScen(fmt.Sprintf("C08-N%d-all-interleavings", n), n, "C08", withMode("all"), withHeights(2), withHorizon(6))
			sc.Dev.Dup, sc.Dev.Perm = false, false
			jobs = append(jobs, job(sc, per))
		}
	}
	return jobs
}

func c16Jobs(tier string) []*Job {
	var jobs []*Job
	per := 120
	if tier == "thorough" {
		per = 1500
	}
	for _, n := range []int{1, 2, 4, 7} {
		for _, ratio := range []int{10, 15, 20, 30, 100} {
			// transaction instants in ms: never, before the minimum, at the minimum, during the extended wait (several), at the maximum
			min, max := 10_000, ratio*1000
			var instants [][]int
			instants = append(instants, nil, []int{3_000}, []int{min})
			for t := min + 2_500; t < max; t += 5_000 {
				instants = append(instants, []int{t})
			}
			instants = append(instants, []int{max}, []int{min + 1, 2*min + 2})
			// two transactions in a row (the second while the proposal triggered by the first is being agreed)
			instants = append(instants, []int{min + 2_500, min + 2_500}, []int{3_000, 3_000})
			// an idle block at the maximum, a transaction shortly after it (before anybody waits again), and another one
			// during the extended wait two heights later
			instants = append(instants, []int{max + 1_000, max + 2*min + 2_000})
			if n == 7 || tier != "thorough" && ratio == 100 {
				instants = append(instants[:3:3], []int{max}, []int{min + 2_500, min + 2_500}, []int{max + 1_000, max + 2*min + 2_000})
			}
			for _, a := range []int64{-1, 0} {
				if a == 0 && (n == 7 || ratio == 15 || ratio == 100) {
					continue
				}
				for ii, ins := range instants {
					k := 1
					if n >= 4 {
						k = 1
					}
					if tier == "thorough" && n <= 4 {
						k = 2
					}
					hts := 3
					if len(ins) == 2 && ins[0] > max {
						hts = 4 // idle block, transaction, busy block, extended wait with the second transaction
					}
					sc := timedScen(fmt.Sprintf("C16-N%d-ratio%.1f-%s-tx%d", n, float64(ratio)/10, amevName(a), ii), n, "C16", withAMEV(a), withDyn(ratio), withPool(), withNewTx(ins...), withHeights(hts), withK(k), withHorizon(hts*5+4))
					sc.Dev.NotifyLag = len(ins) > 0
					jobs = append(jobs, job(sc, per))
					if len(ins) > 0 && (ratio == 15 || ratio == 30) && a == -1 {
						// the same with the documented single-use subscription: a notification only after SubscribeForTxs
						one := timedScen(fmt.Sprintf("C16-N%d-ratio%.1f-%s-tx%d-one-shot-subscription", n, float64(ratio)/10, amevName(a), ii), n, "C16", withAMEV(a), withDyn(ratio), withPool(), withNewTx(ins...), withHeights(hts), withK(k), withHorizon(hts*5+4))
						one.OneShotSub = true
						jobs = append(jobs, job(one, per))
					}
				}
			}
		}
		// control group: extension not configured
		jobs = append(jobs, job(timedScen(fmt.Sprintf("C16-N%d-control-no-extension", n), n, "C16", withHeights(3), withK(1), withHorizon(12)), per))
	}
	return jobs
}

func init() {
	e1Check("C08", "E1 timed mode (virtual clock; network delivery takes no virtual time; time advances only at quiescence to the earliest deadline = 'every message is delivered before the next timer expires'): all validators honest; every order of the enabled deliveries, duplicates, Resets and cached-payload replay orders within <=k deviations of FIFO (N=1..7), every interleaving at two focus nodes (N=4), all interleavings (N=2,3 thorough); oracle: every node decides every height in view 0 on one hash, no ChangeView/RecoveryRequest is ever broadcast, no stuck terminal state",
		c08Jobs, func(a *Aggregate) string {
			if a.Done == 0 {
				return "no execution reached the target height"
			}
			return ""
		})
	e1Check("C16", "E1 timed mode with MaxTimePerBlock configured: ratios max/min in {1,1.5,2,3,10} x N in {1,2,4,7} x a transaction appearing never / before min / at min / every 5 s of the extended wait / at max / twice, in every order relative to the deliveries and timers of that instant, incl. one node's OnNewTransaction notification lagging behind the message traffic of that instant (<=k deviations), 3 heights, anti-MEV off/on; control group without the extension; oracle on virtual-time stamps of PrepareRequest broadcasts, SubscribeForTxs calls, absence of ChangeView/RecoveryRequest, no stuck terminal state",
		c16Jobs, func(a *Aggregate) string {
			if a.Done == 0 {
				return "no execution reached the target height"
			}
			if a.Stats.Antecedents["new-transaction-during-extended-wait"] == 0 || a.Stats.Antecedents["empty-proposal"] == 0 {
				return "no transaction ever appeared during an extended wait / no empty proposal was ever made"
			}
			return ""
		})
}

// ------------------------------------------------------------------ C09

func c09Scen(name string, n int, opts ...opt) *Scenario {
	sc := timedScen(name, n, "C09", opts...)
	sc.SyncDefault = true
	sc.MaxView = 7
	sc.MaxDecideView = -1
	sc.MaxDepth = 1500
	sc.Dev = Dev{Reorder: true, Hold: true}
	return sc
}

func init() {
	// one worker per cut set: every cut instant of the default schedule x durations, each explored with <=k deviations
	customJobs["c09cuts"] = func(j *Job, budget time.Duration) *Result {
		base := j.Scenario
		agg := &Result{Scenario: base.Name, Mode: "kbound", K: base.K, Exhaustive: true, Stats: newStats(), Extra: map[string]int{}}
		start := time.Now()
		// length of the fault-free default schedule
		probe := *base
		probe.CutSet = nil
		probe.RestartAt = 0
		w := newWorld(&probe, nil)
		steps := 0
		for {
			evs := w.enabled()
			if len(evs) == 0 || evs[0].Cost != 0 {
				break
			}
			w.apply(evs[0])
			steps++
		}
		stride := j.Args["stride"]
		if stride == 0 {
			stride = 1
		}
		for at := 1; at <= steps; at += stride {
			for _, dur := range []int{1, 3, 8} {
				if j.Args["restart"] == 1 && dur != 1 {
					continue
				}
				sc := *base
				sc.e2cache = nil
				if j.Args["restart"] == 1 {
					sc.RestartAt = at
					sc.Name = fmt.Sprintf("%s-restart-at%d", base.Name, at)
				} else {
					sc.CutAt, sc.CutExp = at, dur
					sc.Name = fmt.Sprintf("%s-at%d-for%dexpiries", base.Name, at, dur)
				}
				sc.HorizonExpiries = dur + base.HorizonExpiries
				x := newExplorer(&sc, budget-time.Since(start))
				x.prop = j.Prop
				r := x.run()
				agg.States += r.States
				agg.Transitions += r.Transitions
				agg.Replays += r.Replays
				agg.Validated += r.Validated
				agg.Terminal += r.Terminal
				agg.Done += r.Done
				agg.Stuck += r.Stuck
				agg.MaxDepth = max(agg.MaxDepth, r.MaxDepth)
				agg.Extra["fault_scenarios"]++
				agg.Extra["max_expiries_to_recover"] = max(agg.Extra["max_expiries_to_recover"], r.Extra["max_expiries"])
				if !r.Exhaustive {
					agg.Exhaustive = false
				}
				for k, v := range r.Stats.Decisions {
					agg.Stats.Decisions[k] += v
				}
				for k, v := range r.Stats.KindsSent {
					agg.Stats.KindsSent[k] += v
				}
				for _, f := range r.Found {
					dup := false
					for _, g := range agg.Found {
						if g.Key == f.Key {
							dup = true
						}
					}
					if !dup {
						agg.Found = append(agg.Found, f)
					}
				}
				if agg.Sample == nil {
					agg.Sample = r.Sample
				}
				if time.Since(start) > budget {
					agg.Exhaustive = false
					agg.WallS = time.Since(start).Seconds()
					return agg
				}
			}
		}
		agg.WallS = time.Since(start).Seconds()
		return agg
	}
}

func c09Jobs(tier string) []*Job {
	var jobs []*Job
	per := 140
	k := 1
	if tier == "thorough" {
		per, k = 2000, 2
	}
	// (a) silent validators from the start, incl. the primaries of the first views
	for _, a := range []int64{-1, 0} {
		for s := 0; s < 4; s++ {
			sc := c09Scen(fmt.Sprintf("C09-silent%d-N4-%s", s, amevName(a)), 4, withAMEV(a), withKind(s, kSilent), withHeights(2), withK(k+1), withHorizon(24))
			sc.MaxDecideView = 1
			jobs = append(jobs, job(sc, per))
		}
	}
	type ss struct {
		n      int
		silent []int
	}
	for _, c := range []ss{{5, []int{0}}, {6, []int{5}}, {7, []int{5, 4}}, {7, []int{5}}, {8, []int{5, 4}}, {9, []int{5, 4}}, {10, []int{5, 4, 3}}, {10, []int{5}}} {
		opts := []opt{withHeights(1), withK(0), withHorizon(4 * c.n * (len(c.silent) + 2))}
		if tier == "thorough" {
			opts[1] = withK(1)
		}
		for _, s := range c.silent {
			opts = append(opts, withKind(s, kSilent))
		}
		sc := c09Scen(fmt.Sprintf("C09-silent%v-N%d", c.silent, c.n), c.n, opts...)
		sc.MaxDecideView = len(c.silent)
		jobs = append(jobs, job(sc, per))
	}
	// (b) every cut set of N=4 x every instant of the default schedule x durations; (c) restart of each node at every instant
	for mask := 1; mask < 16; mask++ {
		var cs []int
		for i := 0; i < 4; i++ {
			if mask&(1<<i) != 0 {
				cs = append(cs, i)
			}
		}
		for _, a := range []int64{-1, 0} {

			sc := c09Scen(fmt.Sprintf("C09-cut%v-N4-%s", cs, amevName(a)), 4, withAMEV(a), withHeights(1), withK(0), withHorizon(24))
			sc.CutSet = cs
			args := map[string]int{"stride": 1}
			sc.K = 1
			if tier == "thorough" {
				sc.K = 2
			}
			jobs = append(jobs, &Job{Kind: "c09cuts", Scenario: sc, BudgetS: per, Args: args})
		}
	}
	// one validator silent from the start AND its predecessor cut off for a while: after the heal the rejoining node's
	// recovery request must be answered although the first node of its responder window is the silent one
	for sl := 0; sl < 4; sl++ {
		cutN := (sl + 3) % 4
		sc := c09Scen(fmt.Sprintf("C09-silent%d-cut%d-N4", sl, cutN), 4, withKind(sl, kSilent), withHeights(1), withK(0), withHorizon(40))
		sc.CutSet = []int{cutN}
		if tier == "thorough" {
			sc.K = 1
		}
		jobs = append(jobs, &Job{Kind: "c09cuts", Scenario: sc, BudgetS: per, Args: map[string]int{"stride": 1}})
	}
	for r := 0; r < 4; r++ {
		for _, a := range []int64{-1, 0} {
			sc := c09Scen(fmt.Sprintf("C09-restart%d-N4-%s", r, amevName(a)), 4, withAMEV(a), withHeights(1), withK(0), withKind(r, kAmnesia), withHorizon(24))
			sc.Dev.Restart = false
			sc.RestartNode = r
			args := map[string]int{"restart": 1, "stride": 1}
			sc.K = 1
			if tier == "thorough" {
				sc.K = 2
			}
			jobs = append(jobs, &Job{Kind: "c09cuts", Scenario: sc, BudgetS: per, Args: args})
		}
	}
	// restart of a node while another validator is silent: exactly M live validators, so the restarted one is needed
	// and has to get its own earlier payloads back through recovery
	for r := 0; r < 4; r++ {
		for _, sl := range []int{(r + 1) % 4, (r + 2) % 4} {
			sc := c09Scen(fmt.Sprintf("C09-restart%d-silent%d-N4", r, sl), 4, withHeights(1), withK(0), withKind(r, kAmnesia), withKind(sl, kSilent), withHorizon(40))
			sc.Dev.Restart = false
			sc.RestartNode = r
			jobs = append(jobs, &Job{Kind: "c09cuts", Scenario: sc, BudgetS: per, Args: map[string]int{"restart": 1, "stride": 1}})
		}
	}
	// larger N: one representative cut set per size
	for _, n := range []int{7, 10} {
		for _, size := range []int{1, n / 2, n - 1} {
			var cs []int
			for i := 0; i < size; i++ {
				cs = append(cs, (i*3+1)%n)
			}
			sc := c09Scen(fmt.Sprintf("C09-cut-size%d-N%d", size, n), n, withHeights(1), withK(0), withHorizon(6*n))
			sc.CutSet = cs
			jobs = append(jobs, &Job{Kind: "c09cuts", Scenario: sc, BudgetS: per, Args: map[string]int{"stride": 7}})
		}
	}
	return jobs
}

func init() {
	e1Check("C09", "E1 timed mode, fault enumeration: (a) every silent validator of N=4 (incl. the primaries of views 0 and 1) and silent sets of size <=F covering the first primaries for N=5..10; (b) all 15 cut sets of N=4 x every (2nd) instant of the fault-free default schedule x cut durations of 1/3/8 timer expiries (a cut-off node neither sends nor receives, in-flight traffic is lost), representative cut sets for N=7,10; (c) restart with empty consensus state of each node at every instant; after the fault the run is synchronous and explored with <=k delivery deviations (reorder, hold); ledger sync of a lagging node is part of the default schedule. Oracle: bounded liveness in virtual time - within a horizon counted in timer expiries every live validator's ledger reaches the target height (else C09/stuck with the stuck state), and with S silent from the start every height is decided in a view <= |S|.",
		c09Jobs, func(a *Aggregate) string {
			if a.Extra["fault_scenarios"] < 100 {
				return "fewer than 100 cut/restart scenarios were run"
			}
			return ""
		})
}

// ------------------------------------------------------------------ C14 (E4: twin runs under shifted virtual epochs)

var forceObs bool

const c14Base = int64(1_700_000_000) * 1_000_000_000

var c14Offsets = []struct {
	name string
	ns   int64
}{
	{"-30y", -30 * 365 * 86400 * 1_000_000_000},
	{"-1d", -86400 * 1_000_000_000},
	{"+1 increment", 1_000_000},
	{"+1d", 86400 * 1_000_000_000},
	{"+200y", 200 * 365 * 86400 * 1_000_000_000},
}

// pathChoices re-expresses a path as choice indices into enabled() (payload hashes depend on timestamps, indices do not).
func pathChoices(sc *Scenario, path []Event) ([]int, []Event) {
	s2 := *sc
	s2.e2cache = nil
	s2.ClockNs = c14Base
	w := newWorld(&s2, newStats())
	var idx []int
	for _, e := range path {
		evs := w.enabled()
		found := -1
		for i := range evs {
			if evs[i].same(e) {
				found = i
				break
			}
		}
		if found < 0 {
			panic(harnessFault{"c14: base path not reproducible: " + e.String()})
		}
		idx = append(idx, found)
		w.apply(e)
	}
	return idx, path
}

// runObs executes the choice sequence on a world whose virtual clock starts at clock; returns per-node observations
// or a divergence description.
func runObs(sc *Scenario, clock int64, idx []int, base []Event) (obs [][]string, diverged string) {
	s2 := *sc
	s2.e2cache = nil
	s2.ClockNs = clock
	forceObs = true
	defer func() {
		forceObs = false
		if r := recover(); r != nil {
			if hf, ok := r.(harnessFault); ok {
				diverged = hf.msg
				return
			}
			panic(r)
		}
	}()
	w := newWorld(&s2, newStats())
	for step, i := range idx {
		evs := w.enabled()
		if i >= len(evs) {
			return nil, fmt.Sprintf("step %d: %d events enabled, the base epoch took choice %d (%s)", step, len(evs), i, base[step].K)
		}
		if evs[i].K != base[step].K || evs[i].N != base[step].N {
			return nil, fmt.Sprintf("step %d: choice %d is %s at node %d, in the base epoch %s at node %d", step, i, evs[i].K, evs[i].N, base[step].K, base[step].N)
		}
		w.apply(evs[i])
	}
	return w.obs, ""
}

func c14Compare(sc *Scenario, path []Event) (key, msg string) {
	idx, bp := pathChoices(sc, path)
	base, div := runObs(sc, c14Base, idx, bp)
	if div != "" {
		panic(harnessFault{"c14: base epoch diverged from itself: " + div})
	}
	offsets := c14Offsets
	if sc.TSIncrement < 1_000_000 {
		// a finer timestamp increment admits finer shifts (every offset is a multiple of the increment, otherwise the
		// truncation of the clock reading to the increment does not commute with the shift)
		offsets = append(slices.Clone(offsets), []struct {
			name string
			ns   int64
		}{{"+257us", 257_000}, {"-1d-3us", -86400*1_000_000_000 - 3_000}, {"+1d+999us", 86400*1_000_000_000 + 999_000}}...)
	}
	for _, off := range offsets {
		o, div := runObs(sc, c14Base+off.ns, idx, bp)
		if div != "" {
			return "C14/behaviour-differs-under-shifted-clock", fmt.Sprintf("epoch %s: the same schedule is not executable: %s", off.name, div)
		}
		for n := range base {
			if len(o[n]) != len(base[n]) {
				return "C14/observations-differ-under-shifted-clock", fmt.Sprintf("epoch %s: node %d made %d timer calls / broadcasts / decisions, %d in the base epoch; first difference: %s", off.name, n, len(o[n]), len(base[n]), firstDiff(base[n], o[n]))
			}
			for i := range base[n] {
				if o[n][i] != base[n][i] {
					return "C14/observations-differ-under-shifted-clock", fmt.Sprintf("epoch %s: node %d observation %d: %q, in the base epoch %q", off.name, n, i, o[n][i], base[n][i])
				}
			}
		}
	}
	return "", ""
}

func firstDiff(a, b []string) string {
	for i := 0; i < len(a) && i < len(b); i++ {
		if a[i] != b[i] {
			return fmt.Sprintf("#%d %q vs %q", i, b[i], a[i])
		}
	}
	return "one sequence is a prefix of the other"
}

func init() {
	customJobs["c14"] = func(j *Job, budget time.Duration) *Result {
		sc := j.Scenario
		sc.ClockNs = c14Base
		x := newExplorer(sc, budget)
		x.prop = j.Prop
		x.onTerminal = func(w *World, path []Event) {
			x.res.Extra["paths_compared"]++
			x.res.Extra["epoch_runs"] += 1 + len(c14Offsets)
			if key, msg := c14Compare(sc, path); key != "" {
				w.violate("C14", key, nil, msg)
				x.check(w, append(append([]Event{}, path...), Event{K: "epochs"}))
			}
		}
		if sc.E2 != nil {
			x.onTerminal = nil
			x.onState = func(w *World, path []Event) {
				if len(path) == 0 {
					return
				}
				x.res.Extra["paths_compared"]++
				x.res.Extra["epoch_runs"] += 1 + len(c14Offsets)
				if key, msg := c14Compare(sc, path); key != "" {
					w.violate("C14", key, nil, msg)
					x.check(w, append(append([]Event{}, path...), Event{K: "epochs"}))
				}
			}
			// the node's broadcasts are swallowed by the environment here, so a transition into an already known state
			// can still have produced observations (a payload stamped from the wrong clock) that no other path shows
			x.onEdge = func(w *World, path []Event) {
				if w.lastObs > 0 {
					x.res.Extra["edges_compared"]++
					x.onState(w, path)
				}
			}
		}
		return runC14(x)
	}
}

// runC14 turns "same virtual inputs, different state" (the explorer's determinism guard) into a C14 violation:
// with every input virtual, only the machine's wall clock can make two identical runs differ.
func runC14(x *Explorer) (res *Result) {
	defer func() {
		if r := recover(); r != nil {
			hf, ok := r.(harnessFault)
			if !ok || !strings.Contains(hf.msg, "nondeterministic default path") {
				panic(r)
			}
			res = x.res
			res.Found = append(res.Found, Found{Violation: Violation{"C14", "C14/wall-clock-dependence/same-inputs-different-state", -1,
				"two executions of the same schedule with the same virtual clock and callback answers ended in different states: " + hf.msg},
				Path: []Event{{K: "detcheck"}}, Scenario: x.sc})
		}
	}()
	return x.run()
}

// detCheck runs the default schedule twice on fresh instances and compares the final state keys.
func (w *World) detCheck() {
	run := func() ([2]uint64, string) {
		v := newWorldLogged(w.sc)
		for {
			evs := v.enabled()
			if len(evs) == 0 || evs[0].Cost != 0 {
				break
			}
			v.apply(evs[0])
		}
		// the log carries every broadcast payload and timer call (like the explorer's own determinism guard)
		return v.key(), strings.Join(v.log, "\n")
	}
	a, la := run()
	time.Sleep(3 * time.Millisecond)
	b, lb := run()
	curWorld = w
	if a != b || la != lb {
		w.violate("C14", "C14/wall-clock-dependence/same-inputs-different-state", nil, "two executions of the default schedule with identical virtual inputs ended in different states")
	}
}

func c14Jobs(tier string) []*Job {
	var jobs []*Job
	per, k := 120, 2
	if tier == "thorough" {
		per, k = 1200, 3
	}
	mk := func(name string, n int, opts ...opt) *Job {
		sc := timedScen(name, n, "", append([]opt{withHeights(3), withK(k), withHorizon(40)}, opts...)...)
		sc.SyncDefault = true
		sc.Dev.Dup = false // duplicate candidates are ordered by payload hash, which depends on the epoch
		sc.Dev.Tick = n == 4 // message delays: the primary's round-trip estimate becomes non-zero and feeds the timers
		return &Job{Kind: "c14", Scenario: sc, BudgetS: per}
	}
	for _, a := range []int64{-1, 0} {
		jobs = append(jobs, mk("C14-N4-"+amevName(a), 4, withAMEV(a)))
		jobs = append(jobs, mk("C14-N1-"+amevName(a), 1, withAMEV(a)))
	}
	jobs = append(jobs, mk("C14-N4-dyn-idle", 4, withDyn(20), withPool()))
	jobs = append(jobs, mk("C14-N4-dyn-newtx", 4, withDyn(30), withPool(), withNewTx(12_500)))
	jobs = append(jobs, mk("C14-N4-silent-primary", 4, withKind(primaryAt(5, 0, 4), kSilent)))
	jobs = append(jobs, mk("C14-N4-silent-primary-of-height6", 4, withKind(primaryAt(6, 0, 4), kSilent)))
	jobs = append(jobs, mk("C14-N2", 2))
	// timestamp increments finer than a millisecond, epochs that differ by fractions of a millisecond
	for _, inc := range []uint64{1, 1000} {
		j := mk(fmt.Sprintf("C14-N4-increment-%dns", inc), 4)
		j.Scenario.TSIncrement = inc
		jobs = append(jobs, j)
		j = mk(fmt.Sprintf("C14-N4-increment-%dns-silent-primary", inc), 4, withKind(primaryAt(5, 0, 4), kSilent))
		j.Scenario.TSIncrement = inc
		jobs = append(jobs, j)
	}
	// open environment: one real node, every reached state compared across epochs (view skips, recovery, re-requests)
	for _, x := range []int{2, 0} {
		sp := E2Spec{Views: 2, Proposals: "A", Responses: "A", RespPeers: 2, Commits: "A", CVs: 2, RecReq: true, Bundles: true, MaxDepth: 8, StateCap: 30_000}
		if tier == "thorough" {
			sp.StateCap = 1_000_000
			sp.MaxDepth = 10
		}
		e := e2scen(fmt.Sprintf("C14-E2-N4-x%d", x), 4, x, -1, sp)
		jobs = append(jobs, &Job{Kind: "c14", Scenario: e, BudgetS: per})
		// proposal with a missing transaction (no response), change views that skip a view
		sp2 := E2Spec{Views: 2, Proposals: "AB", Responses: "B", RespPeers: 2, CVs: 2, CVViews: 1, MaxDepth: 8, StateCap: sp.StateCap * 2}
		e2 := e2scen(fmt.Sprintf("C14-E2-viewskip-N4-x%d", x), 4, x, -1, sp2)
		jobs = append(jobs, &Job{Kind: "c14", Scenario: e2, BudgetS: per})
	}
	jobs = append(jobs, mk("C14-N7", 7, withK(0), withHeights(8)))
	return jobs
}

func init() {
	e1Check("C14", "E4: every complete path of the timed-mode E1 exploration (N=1,2,4,7; 3-8 heights; primary and backup roles with real round-trip measurements; forced view changes through silent primaries; dynamic block time idle / with a transaction appearing; anti-MEV off/on; <=k deviations) is re-executed on fresh instances under virtual epochs E0 + {-30y, -1d, +1 timestamp increment, +1d, +200y} (epochs on both sides of the machine's wall clock); oracle: per node the sequence of Timer.Reset/Extend arguments, broadcast payload summaries and accepted blocks is identical, with every timestamp shifted by exactly the offset; a schedule that is not executable under another epoch is a violation as well",
		c14Jobs, func(a *Aggregate) string {
			if a.Extra["paths_compared"] < 20 {
				return "fewer than 20 complete paths were compared across epochs"
			}
			return ""
		})
}


// c10TimedJobs: C10 in timed mode, with message delays (non-zero round-trip estimates feed the timer arithmetic).
func c10TimedJobs(tier string) []*Job {
	var jobs []*Job
	per, k := 100, 2
	if tier == "thorough" {
		per, k = 1200, 3
	}
	mk := func(name string, n int, opts ...opt) *Scenario {
		sc := timedScen(name, n, "", append([]opt{withHeights(2), withK(k), withHorizon(30)}, opts...)...)
		sc.Dev.Tick = true
		sc.Dev.Dup = false
		sc.SyncDefault = true
		return sc
	}
	jobs = append(jobs, job(mk("C10-timed-N4-amev-off", 4), per))
	jobs = append(jobs, job(mk("C10-timed-N4-amev-on", 4, withAMEV(0)), per))
	jobs = append(jobs, job(mk("C10-timed-N4-dyn-idle", 4, withDyn(30), withPool()), per))
	jobs = append(jobs, job(mk("C10-timed-N1", 1, withHeights(3)), per))
	// the primary of the second height is cut off after the first decision: view change at a height that directly follows
	// a height in which the new primary measured a round trip
	for _, a := range []int64{-1, 0} {
		probe := mk("probe", 4, withAMEV(a), withHeights(1))
		w := newWorld(probe.finish(), nil)
		steps := 0
		for {
			evs := w.enabled()
			if len(evs) == 0 || evs[0].Cost != 0 {
				break
			}
			w.apply(evs[0])
			steps++
		}
		sc := mk("C10-timed-N4-next-primary-cut-"+amevName(a), 4, withAMEV(a), withK(1), withHorizon(40))
		sc.CutSet = []int{primaryAt(6, 0, 4)}
		sc.CutAt = steps + 4 // all four Resets of the first height done
		sc.CutExp = 12
		jobs = append(jobs, job(sc, per))
	}
	return jobs
}
