package main

import (
	"fmt"
	"time"
)

func timedScen(name string, n int, oracle string, opts ...opt) *Scenario {
	sc := scen(name, n, opts...)
	sc.Timed = true
	sc.Oracle = oracle
	sc.Dev = Dev{Reorder: true, Dup: true, Perm: true, Hold: true}
	sc.MaxView = 3
	return sc
}

func withDyn(ratioTenths int) opt {
	return func(s *Scenario) {
		if ratioTenths > 0 {
			s.MaxTimePerBlock = time.Duration(ratioTenths) * 10 * time.Second / 10
		}
	}
}
func withPool(p ...H) opt   { return func(s *Scenario) { s.Pool = p } }
func withNewTx(ms ...int) opt { return func(s *Scenario) { s.NewTxAt = ms } }
func withHorizon(e int) opt  { return func(s *Scenario) { s.HorizonExpiries = e } }

func c08Jobs(tier string) []*Job {
	var jobs []*Job
	per := 120
	if tier == "thorough" {
		per = 1800
	}
	for _, n := range []int{1, 2, 3, 4, 5, 6, 7} {
		for _, a := range []int64{-1, 0, 6} {
			for _, dyn := range []int{0, 20} {
				if n >= 5 && (a != -1 || dyn != 0) {
					continue
				}
				if a == 6 && dyn != 0 {
					continue
				}
				k := 2
				switch {
				case n <= 3:
					k = 3
				case n == 4:
					k = 2
				case n >= 6:
					k = 1
				}
				if tier == "thorough" && n < 7 {
					k++
				}
				heights := 2
				if a == 6 {
					heights = 3
				}
				sc := timedScen(fmt.Sprintf("C08-N%d-%s-dyn%d", n, amevName(a), dyn), n, "C08", withAMEV(a), withDyn(dyn), withHeights(heights), withK(k), withHorizon(heights*3+2))
				if dyn != 0 {
					// a pending transaction and an idle chain both have to decide in view 0
					jobs = append(jobs, job(sc, per))
					idle := timedScen(fmt.Sprintf("C08-N%d-%s-dyn%d-idle", n, amevName(a), dyn), n, "C08", withAMEV(a), withDyn(dyn), withHeights(heights), withK(k), withHorizon(heights*4+2), withPool())
					jobs = append(jobs, job(idle, per))
					continue
				}
				jobs = append(jobs, job(sc, per))
			}
		}
	}
	// unbounded: every interleaving at two focus nodes, N=4, one height (others process eagerly in default order)
	for _, f := range [][]int{{0, 1}, {1, 2}, {2, 3}, {0, 3}} {
		sc := timedScen(fmt.Sprintf("C08-N4-focus-%d-%d", f[0], f[1]), 4, "C08", withMode("focus", f...), withHeights(1), withHorizon(4))
		sc.Dev.Dup, sc.Dev.Perm = false, false
		jobs = append(jobs, job(sc, per))
	}
	if tier == "thorough" {
		for _, n := range []int{2, 3} {
			sc := timedScen(fmt.Sprintf("C08-N%d-all-interleavings", n), n, "C08", withMode("all"), withHeights(2), withHorizon(6))
			sc.Dev.Dup, sc.Dev.Perm = false, false
			jobs = append(jobs, job(sc, per))
		}
	}
	return jobs
}

func c16Jobs(tier string) []*Job {
	var jobs []*Job
	per := 120
	if tier == "thorough" {
		per = 1500
	}
	for _, n := range []int{1, 2, 4, 7} {
		for _, ratio := range []int{10, 15, 20, 30, 100} {
			// transaction instants in ms: never, before the minimum, at the minimum, during the extended wait (several), at the maximum
			min, max := 10_000, ratio*1000
			var instants [][]int
			instants = append(instants, nil, []int{3_000}, []int{min})
			for t := min + 2_500; t < max; t += 5_000 {
				instants = append(instants, []int{t})
			}
			instants = append(instants, []int{max}, []int{min + 1, 2*min + 2})
			if n == 7 || tier != "thorough" && ratio == 100 {
				instants = instants[:3]
			}
			for _, a := range []int64{-1, 0} {
				if a == 0 && (n == 7 || ratio == 15 || ratio == 100) {
					continue
				}
				for ii, ins := range instants {
					k := 1
					if n >= 4 {
						k = 1
					}
					if tier == "thorough" && n <= 4 {
						k = 2
					}
					sc := timedScen(fmt.Sprintf("C16-N%d-ratio%.1f-%s-tx%d", n, float64(ratio)/10, amevName(a), ii), n, "C16", withAMEV(a), withDyn(ratio), withPool(), withNewTx(ins...), withHeights(3), withK(k), withHorizon(3*5+4))
					jobs = append(jobs, job(sc, per))
				}
			}
		}
		// control group: extension not configured
		jobs = append(jobs, job(timedScen(fmt.Sprintf("C16-N%d-control-no-extension", n), n, "C16", withHeights(3), withK(1), withHorizon(12)), per))
	}
	return jobs
}

func init() {
	e1Check("C08", "E1 timed mode (virtual clock; network delivery takes no virtual time; time advances only at quiescence to the earliest deadline = 'every message is delivered before the next timer expires'): all validators honest; every order of the enabled deliveries, duplicates, Resets and cached-payload replay orders within <=k deviations of FIFO (N=1..7), every interleaving at two focus nodes (N=4), all interleavings (N=2,3 thorough); oracle: every node decides every height in view 0 on one hash, no ChangeView/RecoveryRequest is ever broadcast, no stuck terminal state",
		c08Jobs, func(a *Aggregate) string {
			if a.Done == 0 {
				return "no execution reached the target height"
			}
			return ""
		})
	e1Check("C16", "E1 timed mode with MaxTimePerBlock configured: ratios max/min in {1,1.5,2,3,10} x N in {1,2,4,7} x a transaction appearing never / before min / at min / every 5 s of the extended wait / at max / twice, in every order relative to the deliveries and timers of that instant (<=k deviations), 3 heights, anti-MEV off/on; control group without the extension; oracle on virtual-time stamps of PrepareRequest broadcasts, SubscribeForTxs calls, absence of ChangeView/RecoveryRequest, no stuck terminal state",
		c16Jobs, func(a *Aggregate) string {
			if a.Done == 0 {
				return "no execution reached the target height"
			}
			return ""
		})
}
