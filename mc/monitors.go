package main

// Monitors: each asserts exactly what its property states, evaluated on the
// real node's exported Context at the callback instant or after the API call.

import (
	"fmt"
	"slices"

	"github.com/nspcc-dev/dbft"
)

// isValidator: in the list and not watch-only.
func (n *Node) isValidator() bool {
	c := n.ctx()
	return c.MyIndex >= 0 && !c.WatchOnly() && !n.watchNow // watchNow: the callback says watch-only, whatever the library has sampled
}

func (n *Node) cvMap(h uint32) map[uint16]byte {
	m := n.cvSeen[h]
	if m == nil {
		m = map[uint16]byte{}
		n.cvSeen[h] = m
	}
	return m
}

func (n *Node) noteCV(p *Payload) {
	cv, ok := p.body.(*changeView)
	if !ok {
		return
	}
	m := n.cvMap(p.height)
	if m[p.idx] < cv.newView+1 {
		m[p.idx] = cv.newView + 1
	}
}

// monInput records the change-view evidence handed to the node (C04 keeps its
// own record because the library clears the table on a view change).
func (n *Node) monInput(in *Payload) {
	switch in.typ {
	case dbft.ChangeViewType:
		n.noteCV(in)
	case dbft.RecoveryMessageType:
		for _, e := range in.body.(*recMsg).payloads {
			if e.typ == dbft.ChangeViewType {
				n.noteCV(e)
			}
		}
	}
}

func countPrepsFor(c *dbft.Context[H], req dbft.ConsensusPayload[H]) int {
	cnt := 0
	for i, p := range c.PreparationPayloads {
		if p == nil || p.ViewNumber() != c.ViewNumber {
			continue
		}
		switch p.Type() {
		case dbft.PrepareRequestType:
			if uint(i) == c.PrimaryIndex && p == req {
				cnt++
			}
		case dbft.PrepareResponseType:
			if p.GetPrepareResponse().PreparationHash() == req.Hash() {
				cnt++
			}
		}
	}
	return cnt
}

// currentProposal returns the stored proposal of the current view if it is a
// well-placed PrepareRequest, else nil and a reason.
func currentProposal(c *dbft.Context[H]) (dbft.ConsensusPayload[H], string) {
	if int(c.PrimaryIndex) >= len(c.PreparationPayloads) {
		return nil, "primary index out of range"
	}
	req := c.PreparationPayloads[c.PrimaryIndex]
	if req == nil {
		return nil, "no proposal stored for the current view"
	}
	if req.Type() != dbft.PrepareRequestType {
		return nil, "primary slot does not hold a PrepareRequest"
	}
	// the designated primary is computed by the monitor itself, (height - view) mod N, not taken from the library
	if want := primaryAt(c.BlockIndex, c.ViewNumber, len(c.Validators)); int(req.ValidatorIndex()) != want {
		return nil, fmt.Sprintf("proposal is from %d, primary of height %d view %d is %d", req.ValidatorIndex(), c.BlockIndex, c.ViewNumber, want)
	}
	if req.ViewNumber() != c.ViewNumber {
		return nil, "stored proposal is of another view"
	}
	return req, ""
}

func hasAllTx(c *dbft.Context[H], req dbft.ConsensusPayload[H]) bool {
	for _, h := range req.GetPrepareRequest().TransactionHashes() {
		if _, ok := c.Transactions[h]; !ok {
			return false
		}
	}
	return true
}

// monBroadcast: C03, C04, C07 on every own broadcast of a trusted node.
func (n *Node) monBroadcast(p *Payload) {
	if n.earlierLife {
		// a restarted validator: what it holds as evidence cannot be judged from this instance alone, but it must not
		// contradict what it *knows* it sent in its earlier life (payloads of its own index that the library stored)
		n.monEquivocationOnly(p)
		return
	}
	w := n.w
	c := n.ctx()
	m := n.monFor(c.BlockIndex)
	amev := n.amevAt(c.BlockIndex)

	// ---- C03: view of own messages never decreases within a height
	if p.height == m.height {
		if p.view < m.maxSentView {
			w.violate("C03", "C03/view-decreased", n, fmt.Sprintf("own %s carries view %d after view %d", typeShort[p.typ], p.view, m.maxSentView))
		}
		m.maxSentView = max(m.maxSentView, p.view)
	}
	same := func(kind string, seen map[byte]H, v byte, h H) {
		if old, ok := seen[v]; ok && old != h {
			w.violate("C03", "C03/two-"+kind+"-one-view", n, fmt.Sprintf("two different %s for view %d", kind, v))
		}
		seen[v] = h
	}
	checkOwnCommit := func(e *Payload) {
		switch e.typ {
		case dbft.CommitType:
			if m.hasCommit && m.sentCommit != e.Hash() {
				w.violate("C03", "C03/two-commits", n, "two different commits at one height: "+e.String())
			}
			m.hasCommit, m.sentCommit = true, e.Hash()
		case dbft.PreCommitType:
			if m.hasPreC && m.sentPreC != e.Hash() {
				w.violate("C03", "C03/two-precommits", n, "two different pre-commits at one height: "+e.String())
			}
			m.hasPreC, m.sentPreC = true, e.Hash()
		}
	}

	switch p.typ {
	case dbft.PrepareRequestType:
		same("PrepareRequest", m.sentReq, p.view, p.Hash())
	case dbft.PrepareResponseType:
		same("PrepareResponse", m.sentResp, p.view, p.Hash())
	case dbft.ChangeViewType:
		n.noteCV(p)
		if m.locked {
			w.violate("C03", "C03/changeview-after-commit", n, "ChangeView broadcast after own (pre)commit: "+p.String())
		}
	case dbft.RecoveryMessageType:
		for _, e := range p.body.(*recMsg).payloads {
			if int(e.idx) != c.MyIndex || e.height != m.height {
				continue
			}
			switch e.typ {
			case dbft.CommitType, dbft.PreCommitType:
				// a retransmission must equal the original; an embedded own (pre)commit
				// that was never broadcast directly counts as its first transmission
				checkOwnCommit(e)
			case dbft.PrepareRequestType:
				same("PrepareRequest", m.sentReq, e.view, e.Hash())
			case dbft.PrepareResponseType:
				same("PrepareResponse", m.sentResp, e.view, e.Hash())
			}
		}
	}

	first := false
	switch p.typ {
	case dbft.CommitType:
		first = !m.hasCommit
		checkOwnCommit(p)
	case dbft.PreCommitType:
		first = !m.hasPreC
		checkOwnCommit(p)
	}
	if (p.typ == dbft.CommitType || p.typ == dbft.PreCommitType) && !m.locked {
		m.locked, m.lockView = true, c.ViewNumber
	}

	// ---- C04: responses and (pre)commits only on evidence
	switch p.typ {
	case dbft.PrepareResponseType:
		req, why := currentProposal(c)
		if req == nil {
			w.violate("C04", "C04/response-without-proposal", n, "PrepareResponse broadcast: "+why)
			break
		}
		if !hasAllTx(c, req) {
			w.violate("C04", "C04/response-missing-tx", n, "PrepareResponse broadcast while a proposed transaction is missing")
		}
		r := req.GetPrepareRequest()
		bh := blockHash(c.BlockIndex, c.PrevHash, r.Timestamp(), r.Nonce(), r.TransactionHashes())
		if amev {
			bh ^= 0x5050505050505050
		}
		if ok, called := m.verifiedOK[bh]; !called || !ok {
			w.violate("C04", "C04/response-unverified-block", n, fmt.Sprintf("PrepareResponse broadcast, block verification called=%v ok=%v", called, ok))
		}
		if p.body.(*prepResp).prepHash != req.Hash() {
			w.violate("C04", "C04/response-names-other-hash", n, "PrepareResponse does not name the stored proposal")
		}
	case dbft.CommitType, dbft.PreCommitType:
		if !first {
			break
		}
		req, why := currentProposal(c)
		if req == nil {
			w.violate("C04", "C04/commit-without-proposal", n, typeShort[p.typ]+" broadcast: "+why)
			break
		}
		if !hasAllTx(c, req) {
			w.violate("C04", "C04/commit-missing-tx", n, typeShort[p.typ]+" broadcast while a proposed transaction is missing")
		}
		if cnt := countPrepsFor(c, req); cnt < c.M() {
			w.violate("C04", "C04/commit-without-prepare-quorum", n, fmt.Sprintf("%s broadcast with %d preparations naming the proposal, M=%d", typeShort[p.typ], cnt, c.M()))
		}
	}

	// ---- C07: anti-MEV phase discipline
	switch p.typ {
	case dbft.PreCommitType:
		if !amev {
			w.violate("C07", "C07/precommit-below-enabling-height", n, "PreCommit broadcast below the enabling height")
		}
	case dbft.CommitType:
		if amev && first {
			if !m.hasPreC {
				w.violate("C07", "C07/commit-before-own-precommit", n, "Commit broadcast before own PreCommit")
			}
			if m.preBlockOK < 1 {
				w.violate("C07", "C07/commit-before-preblock", n, "Commit broadcast before a successful ProcessPreBlock")
			}
			cnt, acceptable := 0, 0
			pb, _ := c.PreBlock().(*PreBlock)
			for i, pc := range c.PreCommitPayloads {
				if pc != nil && pc.ViewNumber() == c.ViewNumber {
					cnt++
					// a pre-commit whose data does not fit the pre-block, or that the application's payload verifier refuses,
					// is not a pre-commit of that validator
					if pb != nil && pb.Verify(c.Validators[i], pc.GetPreCommit().Data()) == nil && !pc.(*Payload).badWitness {
						acceptable++
					}
				}
			}
			if cnt >= c.M() && pb != nil && acceptable < c.M() {
				w.violate("C07", "C07/commit-without-acceptable-precommit-quorum", n, fmt.Sprintf("Commit broadcast holding %d current-view pre-commits of which only %d are acceptable, M=%d", cnt, acceptable, c.M()))
			}
			if cnt < c.M() {
				w.violate("C07", "C07/commit-without-precommit-quorum", n, fmt.Sprintf("Commit broadcast with %d current-view pre-commits, M=%d", cnt, c.M()))
			}
		}
	}
}

// monBlockCertificate: C02 at ProcessBlock.
func (n *Node) monBlockCertificate(b *Block) {
	w := n.w
	c := n.ctx()
	m := n.monFor(c.BlockIndex)
	amev := n.amevAt(c.BlockIndex)
	valid := 0
	var bad []*Payload
	for i, cp := range c.CommitPayloads {
		if cp == nil || cp.ViewNumber() != c.ViewNumber {
			continue
		}
		if b.Verify(c.Validators[i], cp.GetCommit().Signature()) == nil && int(cp.ValidatorIndex()) == i && !cp.(*Payload).badWitness {
			valid++
		} else {
			bad = append(bad, cp.(*Payload))
		}
	}
	if valid < c.M() {
		// classify by how the counted-but-invalid commits got in
		key := "C02/block-without-M-valid-commits"
		if len(bad) > 0 {
			allEarly := true
			for _, e := range bad {
				if m.commitVer[e.Hash()] {
					allEarly = false
				}
			}
			if allEarly {
				if amev {
					key = "C02/unverified-commit/stored-before-preblock/amev"
				} else {
					key = "C02/unverified-commit/stored-without-header/no-amev"
					// known finding; remember it so that an agreement violation it leads to is told apart from others
					w.weakCert |= 1 << (uint64(b.index) % 64)
				}
			} else {
				key = "C02/invalid-commit-counted-after-verification"
			}
		}
		w.violate("C02", key, n, fmt.Sprintf("ProcessBlock at height %d view %d with %d valid current-view commits (M=%d), %d invalid counted", b.index, c.ViewNumber, valid, c.M(), len(bad)))
	}
	if n.ledgerAhead {
		// the ledger obtained this height elsewhere while consensus for it was still running: the application ignores the
		// duplicate, the comparison with the (already advanced) tip is meaningless
	} else if b.index != n.height+1 || b.prev != n.tip {
		w.violate("C02", "C02/block-does-not-extend-tip", n, fmt.Sprintf("block index %d prev %s, ledger height %d tip %s", b.index, b.prev, n.height, n.tip))
	}
	req, why := currentProposal(c)
	if req == nil {
		w.violate("C02", "C02/block-without-proposal", n, "ProcessBlock: "+why)
		return
	}
	r := req.GetPrepareRequest()
	if !slices.Equal(b.txHashes, r.TransactionHashes()) || b.ts != r.Timestamp() || b.nonce != r.Nonce() {
		w.violate("C02", "C02/block-differs-from-proposal", n, "accepted block does not carry the proposal's transactions/timestamp/nonce")
	}
	if len(b.txs) != len(b.txHashes) {
		w.violate("C02", "C02/block-transactions-incomplete", n, "accepted block lacks transactions")
	} else {
		for i, t := range b.txs {
			if t == nil || t.Hash() != b.txHashes[i] {
				w.violate("C02", "C02/block-transactions-order", n, "accepted block's transactions are not the proposed ones in order")
				break
			}
		}
	}
}

// monPreBlockCertificate: C02 at ProcessPreBlock.
func (n *Node) monPreBlockCertificate(b *PreBlock) {
	w := n.w
	c := n.ctx()
	m := n.monFor(c.BlockIndex)
	valid := 0
	var bad []*Payload
	for i, cp := range c.PreCommitPayloads {
		if cp == nil || cp.ViewNumber() != c.ViewNumber {
			continue
		}
		if b.Verify(c.Validators[i], cp.GetPreCommit().Data()) == nil && int(cp.ValidatorIndex()) == i && !cp.(*Payload).badWitness {
			valid++
		} else {
			bad = append(bad, cp.(*Payload))
		}
	}
	if valid < c.M() {
		key := "C02/preblock-without-M-valid-precommits"
		if len(bad) > 0 {
			allEarly := true
			for _, e := range bad {
				if m.preCVer[e.Hash()] {
					allEarly = false
				}
			}
			if allEarly {
				key = "C02/unverified-precommit/stored-without-preheader"
			} else {
				key = "C02/invalid-precommit-counted-after-verification"
			}
		}
		w.violate("C02", key, n, fmt.Sprintf("ProcessPreBlock at height %d view %d with %d valid current-view pre-commits (M=%d), %d invalid counted", b.index, c.ViewNumber, valid, c.M(), len(bad)))
	}
	req, why := currentProposal(c)
	if req == nil {
		w.violate("C02", "C02/preblock-without-proposal", n, "ProcessPreBlock: "+why)
		return
	}
	r := req.GetPrepareRequest()
	if len(b.txs) != len(b.txHashes) {
		w.violate("C02", "C02/preblock-transactions-incomplete", n, "processed pre-block lacks transactions")
	} else {
		for i, t := range b.txs {
			if t == nil || t.Hash() != b.txHashes[i] {
				w.violate("C02", "C02/preblock-transactions-order", n, "processed pre-block's transactions are not the proposed ones in order (nil or foreign entry)")
				break
			}
		}
	}
	if !slices.Equal(b.txHashes, r.TransactionHashes()) || b.ts != r.Timestamp() || b.nonce != r.Nonce() || (!n.ledgerAhead && (b.index != n.height+1 || b.prev != n.tip)) {
		w.violate("C02", "C02/preblock-differs-from-proposal", n, "pre-block does not carry the proposal / extend the tip")
	}
}

// monAfter runs after every API call.
func (n *Node) monAfter(what string, in *Payload, pre apiPre, quietCheck bool) {
	w := n.w
	c := n.ctx()
	if !n.trusted() {
		return
	}
	m := n.monFor(c.BlockIndex)

	// ---- C10: an undecided validator has a timer for its epoch
	// ("undecided" is judged from the application's ledger, not from the library's own BlockSent flag: a node that
	// believes it has delivered a block which the application never accepted is exactly a lost wake-up)
	if n.isValidator() && n.height < c.BlockIndex {
		t := n.t
		switch {
		case !t.armed:
			w.violate("C10", "C10/no-timer/"+what, n, "undecided validator has never armed its timer")
		case t.h != c.BlockIndex || t.v != c.ViewNumber:
			w.violate("C10", "C10/timer-epoch-mismatch/"+what, n, fmt.Sprintf("timer armed for (%d,%d), node at (%d,%d)", t.h, t.v, c.BlockIndex, c.ViewNumber))
		case t.consumed:
			w.violate("C10", "C10/timer-not-rearmed/"+what, n, fmt.Sprintf("timer expiry for (%d,%d) consumed and not re-armed", t.h, t.v))
		case t.d < 0:
			w.violate("C10", "C10/negative-total-duration/"+what, n, "timer total duration negative")
		}
	}

	// ---- C03: commit lock
	if m.locked && c.BlockIndex == m.height && c.ViewNumber != m.lockView && !n.watchNow { // (a validator switched to watch-only follows the network like any observer; it is silent, which C13 checks)
		w.violate("C03", "C03/view-changed-after-commit", n, fmt.Sprintf("view moved %d -> %d after own (pre)commit", m.lockView, c.ViewNumber))
	}

	// ---- C04: entering a higher view needs M change views for it
	before := byte(0)
	if c.BlockIndex == pre.height && what != "Reset" && what != "Start" {
		before = pre.view
	}
	if c.ViewNumber > before {
		cnt := 0
		for _, v := range n.cvMap(c.BlockIndex) {
			if v >= c.ViewNumber+1 {
				cnt++
			}
		}
		if cnt < c.M() {
			w.violate("C04", "C04/view-change-without-quorum", n, fmt.Sprintf("entered view %d holding change views for it from %d validators, M=%d", c.ViewNumber, cnt, c.M()))
		}
	}

	// ---- C05 (b): quiescence between acceptance and Reset
	if quietCheck && c.BlockIndex == pre.height {
		if fp := fingerprint(n, fpQuietSkip); fp != pre.fpQuiet {
			w.violate("C05", "C05/state-changed-after-decision/"+what, n, what+" changed consensus state after the block was accepted")
		}
		if n.t.ops != pre.timerOps {
			w.violate("C05", "C05/timer-touched-after-decision/"+what, n, what+" touched the timer after the block was accepted")
		}
		for i, p := range n.callBroadcasts {
			if p.typ != dbft.RecoveryMessageType || in == nil || in.typ != dbft.RecoveryRequestType || i > 0 {
				w.violate("C05", "C05/broadcast-after-decision/"+typeShort[p.typ], n, what+" broadcast "+p.String()+" after the block was accepted")
			}
		}
	}

	// ---- C05 (c): clean re-initialisation
	if (what == "Reset" || what == "Start") && !n.pendingReset {
		vals := n.validators()
		ok := c.BlockIndex == n.height+1 && c.PrevHash == n.tip && len(c.Validators) == len(vals)
		if ok {
			for i := range vals {
				if c.Validators[i] != vals[i] {
					ok = false
				}
			}
		}
		my := -1
		for i, v := range vals {
			if v.(pubKey).id == n.id {
				my = i
			}
		}
		if c.MyIndex != my {
			ok = false
		}
		nv := len(vals)
		if len(c.PreparationPayloads) != nv || len(c.CommitPayloads) != nv || len(c.PreCommitPayloads) != nv ||
			len(c.ChangeViewPayloads) != nv || len(c.LastChangeViewPayloads) != nv || len(c.LastSeenMessage) != nv {
			ok = false
		}
		if !ok {
			w.violate("C05", "C05/reinit-mismatch", n, fmt.Sprintf("after %s: BlockIndex=%d (ledger %d) MyIndex=%d (expected %d) validators=%d (expected %d)", what, c.BlockIndex, n.height, c.MyIndex, my, len(c.Validators), nv))
		}
		// nothing of earlier heights may stay in the future-message cache
		for _, h := range cacheHeights(n) {
			if h <= n.height {
				w.violate("C05", "C05/cache-retains-past-height", n, fmt.Sprintf("after %s at height %d the cache still holds payloads of height %d", what, c.BlockIndex, h))
				break
			}
		}
		for h := range n.cvSeen {
			if h < c.BlockIndex {
				delete(n.cvSeen, h)
			}
		}
	}
}

// monTxSupplied: C12 reference model "requested \ supplied".
func (n *Node) monTxSupplied(h H, wasRequested bool, preView byte, preLeaving, preReq, preResp bool) {
	if !n.trusted() || !wasRequested || !n.isValidator() {
		return
	}
	c := n.ctx()
	m := n.monFor(c.BlockIndex)
	// the set that became empty must be the one of the view the node was in
	if m.reqView != preView || len(m.requested) != 0 {
		return
	}
	if preLeaving || !preReq || preResp {
		return
	}
	for _, p := range n.callBroadcasts {
		if p.typ == dbft.PrepareResponseType || p.typ == dbft.ChangeViewType {
			return
		}
	}
	n.w.violate("C12", "C12/no-answer-after-last-transaction", n, fmt.Sprintf("all requested transactions of the view-%d proposal supplied, no PrepareResponse/ChangeView broadcast", preView))
}

// monEquivocationOnly: C03's one-proposal / one-response per view and one-(pre)commit per height for an instance with
// an earlier life (see Node.Receive and noteEarlierLife).
func (n *Node) monEquivocationOnly(p *Payload) {
	w := n.w
	m := n.monFor(n.ctx().BlockIndex)
	if p.height != m.height {
		return
	}
	one := func(kind string, seen map[byte]H, v byte, h H) {
		if old, ok := seen[v]; ok && old != h {
			w.violate("C03", "C03/two-"+kind+"-one-view", n, fmt.Sprintf("two different %s for view %d (the first one known from the node's earlier life or sent by this instance)", kind, v))
		}
		seen[v] = h
	}
	switch p.typ {
	case dbft.PrepareRequestType:
		one("PrepareRequest", m.sentReq, p.view, p.Hash())
	case dbft.PrepareResponseType:
		one("PrepareResponse", m.sentResp, p.view, p.Hash())
	case dbft.CommitType:
		if m.hasCommit && m.sentCommit != p.Hash() {
			w.violate("C03", "C03/two-commits", n, "two different commits at one height: "+p.String())
		}
		m.hasCommit, m.sentCommit = true, p.Hash()
	case dbft.PreCommitType:
		if m.hasPreC && m.sentPreC != p.Hash() {
			w.violate("C03", "C03/two-precommits", n, "two different pre-commits at one height: "+p.String())
		}
		m.hasPreC, m.sentPreC = true, p.Hash()
	}
}

// noteEarlierLife records an own-index payload that came back to a restarted validator, provided the library has
// stored exactly this payload in the node's own slot (then the node knows it) and the monitor has nothing recorded yet.
func (n *Node) noteEarlierLife(p *Payload) {
	c := n.ctx()
	if c.MyIndex < 0 || int(p.idx) != c.MyIndex || p.height != c.BlockIndex {
		return
	}
	m := n.monFor(c.BlockIndex)
	holds := func(tbl []dbft.ConsensusPayload[H]) bool {
		return c.MyIndex < len(tbl) && tbl[c.MyIndex] != nil && tbl[c.MyIndex].Hash() == p.Hash()
	}
	switch p.typ {
	case dbft.PrepareRequestType:
		if _, ok := m.sentReq[p.view]; !ok && p.view == c.ViewNumber && holds(c.PreparationPayloads) {
			m.sentReq[p.view] = p.Hash()
		}
	case dbft.PrepareResponseType:
		if _, ok := m.sentResp[p.view]; !ok && p.view == c.ViewNumber && holds(c.PreparationPayloads) {
			m.sentResp[p.view] = p.Hash()
		}
	case dbft.CommitType:
		if !m.hasCommit && holds(c.CommitPayloads) {
			m.hasCommit, m.sentCommit = true, p.Hash()
		}
	case dbft.PreCommitType:
		if !m.hasPreC && holds(c.PreCommitPayloads) {
			m.hasPreC, m.sentPreC = true, p.Hash()
		}
	}
}
