package main

// Reflective fingerprint of the whole dbft.DBFT struct (exported or not), so a
// field added later is covered automatically. Skipped: Config, Logger, Timer,
// Mutex, func values.

import (
	"fmt"
	"reflect"
	"slices"
	"sort"
	"sync"
	"time"
	"unsafe"

	"github.com/nspcc-dev/dbft"
)

var (
	tPayload  = reflect.TypeOf((*Payload)(nil))
	tBlock    = reflect.TypeOf((*Block)(nil))
	tPreBlock = reflect.TypeOf((*PreBlock)(nil))
	tTime     = reflect.TypeOf(time.Time{})
	tMutex    = reflect.TypeOf((*sync.Mutex)(nil))
	tConfig   = reflect.TypeOf(dbft.Config[H]{})
	tConfigP  = reflect.TypeOf((*dbft.Config[H])(nil))
)

var (
	fpNoSkip    = map[string]bool{}
	fpQuietSkip = map[string]bool{"LastSeenMessage": true, "cache": true}
	fpSeenSkip  = map[string]bool{"LastSeenMessage": true}
)

type fper struct {
	s    *hasher
	now  time.Time
	skip map[string]bool
}

func (f *fper) walk(v reflect.Value) {
	switch v.Kind() {
	case reflect.Bool:
		if v.Bool() {
			f.s.b(1)
		} else {
			f.s.b(0)
		}
	case reflect.Int, reflect.Int8, reflect.Int16, reflect.Int32, reflect.Int64:
		f.s.u64(uint64(v.Int()))
	case reflect.Uint, reflect.Uint8, reflect.Uint16, reflect.Uint32, reflect.Uint64, reflect.Uintptr:
		f.s.u64(v.Uint())
	case reflect.String:
		f.s.str(v.String())
	case reflect.Slice:
		f.s.u64(uint64(v.Len()))
		for i := 0; i < v.Len(); i++ {
			f.walk(v.Index(i))
		}
	case reflect.Array:
		for i := 0; i < v.Len(); i++ {
			f.walk(v.Index(i))
		}
	case reflect.Map:
		type kv struct{ k, v uint64 }
		var items []kv
		it := v.MapRange()
		for it.Next() {
			a := &fper{s: newHasher(), now: f.now, skip: f.skip}
			a.walk(it.Key())
			b := &fper{s: newHasher(), now: f.now, skip: f.skip}
			b.walk(it.Value())
			items = append(items, kv{a.s.sum(), b.s.sum()})
		}
		sort.Slice(items, func(i, j int) bool {
			if items[i].k != items[j].k {
				return items[i].k < items[j].k
			}
			return items[i].v < items[j].v
		})
		f.s.u64(uint64(len(items)))
		for _, e := range items {
			f.s.u64(e.k)
			f.s.u64(e.v)
		}
	case reflect.Interface:
		if v.IsNil() {
			f.s.b(0)
			return
		}
		f.s.b(1)
		f.walk(v.Elem())
	case reflect.Ptr:
		if v.IsNil() {
			f.s.b(0)
			return
		}
		f.s.b(1)
		switch v.Type() {
		case tPayload:
			p := (*Payload)(v.UnsafePointer())
			f.s.u64(uint64(p.Hash()))
		case tBlock:
			b := (*Block)(v.UnsafePointer())
			f.s.u64(uint64(b.Hash()))
			f.s.bytes(b.sig)
			f.s.u64(uint64(len(b.txs)))
			if b.txsSet {
				f.s.b(1)
			}
		case tPreBlock:
			b := (*PreBlock)(v.UnsafePointer())
			f.s.u64(uint64(b.hash()))
			f.s.bytes(b.data)
			f.s.u64(uint64(len(b.txs)))
		case tMutex, tConfigP:
		default:
			f.walk(v.Elem())
		}
	case reflect.Struct:
		switch v.Type() {
		case tTime:
			var t time.Time
			if v.CanAddr() {
				t = *(*time.Time)(unsafe.Pointer(v.UnsafeAddr()))
			} else {
				// copy through a fresh addressable value
				nv := reflect.New(tTime).Elem()
				nv.Set(v)
				t = nv.Interface().(time.Time)
			}
			if t.IsZero() {
				f.s.b(0)
			} else {
				f.s.b(1)
				f.s.u64(uint64(t.Sub(f.now)))
			}
			return
		case tConfig:
			return
		}
		tt := v.Type()
		for i := 0; i < v.NumField(); i++ {
			name := tt.Field(i).Name
			if f.skip[name] || name == "Config" || name == "Logger" || name == "Timer" || name == "Mutex" {
				continue
			}
			f.s.str(name)
			f.walk(v.Field(i))
		}
	case reflect.Func, reflect.Chan, reflect.UnsafePointer:
	default:
		panic(harnessFault{"fingerprint: unhandled kind " + v.Kind().String()})
	}
}

// fingerprint hashes the node's whole library state except skipped fields.
func fingerprint(n *Node, skip map[string]bool) uint64 {
	f := &fper{s: newHasher(), now: n.w.now, skip: skip}
	f.walk(reflect.ValueOf(n.d).Elem())
	return f.s.sum()
}

// cacheHeights lists the heights held in the unexported future-message cache.
func cacheHeights(n *Node) []uint32 {
	mail := reflect.ValueOf(n.d).Elem().FieldByName("cache").FieldByName("mail")
	var r []uint32
	it := mail.MapRange()
	for it.Next() {
		r = append(r, uint32(it.Key().Uint()))
	}
	slices.Sort(r)
	return r
}

// cachePayloads lists the payloads parked in the cache for a height.
func cachePayloads(n *Node, h uint32) []*Payload {
	mail := reflect.ValueOf(n.d).Elem().FieldByName("cache").FieldByName("mail")
	var r []*Payload
	it := mail.MapRange()
	for it.Next() {
		if uint32(it.Key().Uint()) != h {
			continue
		}
		ib := it.Value().Elem()
		for i := 0; i < ib.NumField(); i++ {
			mi := ib.Field(i).MapRange()
			for mi.Next() {
				e := mi.Value()
				if e.IsNil() {
					continue
				}
				r = append(r, (*Payload)(e.Elem().UnsafePointer()))
			}
		}
	}
	sort.Slice(r, func(i, j int) bool { return r[i].Hash() < r[j].Hash() })
	return r
}

// txSubscribed reads the unexported txSubscriptionOn flag.
func txSubscribed(n *Node) bool {
	return reflect.ValueOf(n.d).Elem().FieldByName("Context").FieldByName("txSubscriptionOn").Bool()
}

// diffFields names the top-level Context/DBFT fields whose fingerprints differ between two nodes.
func diffFields(a, b *Node, skip map[string]bool) string {
	var out []string
	var rec func(va, vb reflect.Value, prefix string, depth int)
	rec = func(va, vb reflect.Value, prefix string, depth int) {
		t := va.Type()
		for i := 0; i < va.NumField(); i++ {
			name := t.Field(i).Name
			if skip[name] || name == "Config" || name == "Logger" || name == "Timer" || name == "Mutex" {
				continue
			}
			fa := &fper{s: newHasher(), now: a.w.now, skip: skip}
			fa.walk(va.Field(i))
			fb := &fper{s: newHasher(), now: b.w.now, skip: skip}
			fb.walk(vb.Field(i))
			if fa.s.sum() != fb.s.sum() {
				if name == "Context" && depth == 0 {
					rec(va.Field(i), vb.Field(i), "Context.", 1)
				} else {
					out = append(out, prefix+name)
				}
			}
		}
	}
	rec(reflect.ValueOf(a.d).Elem(), reflect.ValueOf(b.d).Elem(), "", 0)
	return "differing fields: " + fmt.Sprint(out)
}
