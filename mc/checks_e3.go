package main

// E3: finite-domain enumerators (C06, C15). Every element of the stated domain
// is evaluated on the real library; nothing is sampled.

import (
	"fmt"
	"math/big"
	"os"
	"runtime"
	"slices"
	"sync"
	"sync/atomic"
	"time"

	"github.com/nspcc-dev/dbft"
	"go.uber.org/zap"
)

// bareNode builds a library instance with n dummy validators at ledger height `cur`.
func bareNode(n int, cur uint32, my int) *dbft.DBFT[H] {
	d, _, _ := bareNodeDyn(n, cur, my)
	return d
}

// bareNodeDyn is bareNode whose validator list and ledger height can be changed between Resets
// (setN replaces the list the GetValidators callback returns, setH the value of CurrentHeight).
func bareNodeDyn(n int, cur uint32, my int) (d *dbft.DBFT[H], setN func(int), setH func(uint32)) {
	mkVals := func(n int) []dbft.PublicKey {
		v := make([]dbft.PublicKey, n)
		for i := range v {
			v[i] = pubKey{i}
		}
		return v
	}
	vals := mkVals(n)
	setN = func(k int) { vals = mkVals(k) }
	setH = func(h uint32) { cur = h }
	w := &World{sc: (&Scenario{N: n}).finish(), now: time.Unix(1_700_000_000, 0)}
	node := &Node{id: my, w: w, known: map[H]bool{}}
	node.t = &VTimer{n: node}
	d, err := dbft.New[H](
		dbft.WithTimer[H](node.t),
		dbft.WithLogger[H](zap.NewNop()),
		dbft.WithGetKeyPair[H](func(p []dbft.PublicKey) (int, dbft.PrivateKey, dbft.PublicKey) {
			if my >= 0 && my < len(p) {
				return my, privKey{my}, pubKey{my}
			}
			return -1, nil, nil
		}),
		dbft.WithCurrentHeight[H](func() uint32 { return cur }),
		dbft.WithCurrentBlockHash[H](func() H { return 1 }),
		dbft.WithGetValidators[H](func(...dbft.Transaction[H]) []dbft.PublicKey { return vals }),
		dbft.WithNewBlockFromContext[H](func(c *dbft.Context[H]) dbft.Block[H] { return &Block{index: c.BlockIndex} }),
		dbft.WithNewConsensusPayload[H](func(c *dbft.Context[H], t dbft.MessageType, b any) dbft.ConsensusPayload[H] {
			return &Payload{typ: t, height: c.BlockIndex, view: c.ViewNumber, body: b}
		}),
		dbft.WithNewPrepareRequest[H](func(ts, nonce uint64, txs []H) dbft.PrepareRequest[H] { return &prepReq{ts, nonce, txs} }),
		dbft.WithNewPrepareResponse[H](func(h H) dbft.PrepareResponse[H] { return &prepResp{h} }),
		dbft.WithNewChangeView[H](func(v byte, r dbft.ChangeViewReason, ts uint64) dbft.ChangeView { return &changeView{v, r, ts} }),
		dbft.WithNewCommit[H](func(s []byte) dbft.Commit { return &commitBody{s} }),
		dbft.WithNewRecoveryRequest[H](func(ts uint64) dbft.RecoveryRequest { return &recReq{ts} }),
		dbft.WithNewRecoveryMessage[H](func() dbft.RecoveryMessage[H] { return &recMsg{} }),
		dbft.WithWatchOnly[H](func() bool { return true }), // never proposes: only the arithmetic is under test
	)
	if err != nil {
		panic(err)
	}
	return d, setN, setH
}

type c06fail struct {
	key, msg string
}

func c06Check(tier string) int {
	start := time.Now()
	maxN := 65535
	startN := 1024 // N up to here is initialised through Start, above through the exported fields
	var Ns []int
	if tier == "quick" {
		startN = 256
		for n := 1; n <= 4096; n++ {
			Ns = append(Ns, n)
		}
		for _, b := range []int{4097, 8191, 8192, 8193, 16383, 16384, 16385, 21845, 21846, 32767, 32768, 32769, 43690, 43691, 65533, 65534, 65535} {
			Ns = append(Ns, b)
		}
	} else {
		for n := 1; n <= maxN; n++ {
			Ns = append(Ns, n)
		}
	}
	heights := []uint32{0, 1, 2, 3, 255, 256, 257, 65535, 65536, 1<<31 - 2, 1<<31 - 1, 1 << 31, 1<<31 + 1, 1<<32 - 257, 1<<32 - 256, 1<<32 - 2, 1<<32 - 1}
	var evals, nontriv, viaStart atomic.Int64
	var mu sync.Mutex
	fails := map[string]c06fail{}
	fail := func(key, msg string) {
		mu.Lock()
		if _, ok := fails[key]; !ok {
			fails[key] = c06fail{key, msg}
		}
		mu.Unlock()
	}
	var samples []any
	work := make(chan int, 64)
	var wg sync.WaitGroup
	for g := 0; g < runtime.NumCPU(); g++ {
		wg.Add(1)
		go func() {
			defer wg.Done()
			bn, bh, bv, br := new(big.Int), new(big.Int), new(big.Int), new(big.Int)
			for n := range work {
				var c1, c2 *dbft.Context[H]
				if n <= startN {
					d1, d2 := bareNode(n, 0, -1), bareNode(n, 0, -1)
					d1.Start(0)
					d2.Start(0)
					c1, c2 = &d1.Context, &d2.Context
					viaStart.Add(1)
				} else {
					vals := make([]dbft.PublicKey, n)
					c1, c2 = &dbft.Context[H]{Validators: vals}, &dbft.Context[H]{Validators: vals}
				}
				// quorum arithmetic (independent integer arithmetic)
				f := 0
				for 3*(f+1)+1 <= n {
					f++
				}
				m := n - f
				if c1.N() != n || c1.F() != f || c1.M() != m {
					fail("C06/quorum-arithmetic", fmt.Sprintf("N=%d: library N/F/M = %d/%d/%d, expected %d/%d/%d", n, c1.N(), c1.F(), c1.M(), n, f, m))
				}
				if lf, lm := c1.F(), c1.M(); !(2*lm-n > lf) || lm > n-lf || lm < 1 {
					fail("C06/quorum-intersection", fmt.Sprintf("N=%d: F=%d M=%d: two quorums do not share more than F validators or a quorum needs a faulty one", n, lf, lm))
				}
				bn.SetInt64(int64(n))
				for _, h := range heights {
					// reach the height both directly and through CurrentHeight()+1 wrap-around
					c1.BlockIndex = h
					c2.BlockIndex = (h - 1) + 1 // reached as CurrentHeight()+1 with 32-bit wrap
					for v := 0; v < 256; v++ {
						p := c1.GetPrimaryIndex(byte(v))
						bh.SetUint64(uint64(h))
						bv.SetInt64(int64(v))
						br.Sub(bh, bv)
						br.Mod(br, bn) // Euclidean: always in [0,n)
						exp := uint(br.Int64())
						evals.Add(1)
						if n > 1 {
							nontriv.Add(1)
						}
						if p != exp || p >= uint(n) {
							fail("C06/primary-index", fmt.Sprintf("N=%d height=%d view=%d: GetPrimaryIndex=%d, expected (h-v) mod N = %d", n, h, v, p, exp))
						}
						if q := c2.GetPrimaryIndex(byte(v)); q != p {
							fail("C06/primary-differs-between-nodes", fmt.Sprintf("N=%d height=%d view=%d: %d vs %d on two contexts", n, h, v, p, q))
						}
					}
					// every validator primary exactly once over min(N,256) consecutive views
					win := min(n, 256)
					seen := make(map[uint]bool, win)
					for v := 0; v < win; v++ {
						seen[c1.GetPrimaryIndex(byte(v))] = true
					}
					if len(seen) != win {
						fail("C06/rotation-views", fmt.Sprintf("N=%d height=%d: %d distinct primaries over %d consecutive views", n, h, len(seen), win))
					}
				}
				// every validator primary exactly once over N consecutive heights (windows at each base height)
				if n <= 4096 {
					for _, base := range []uint32{0, 1<<31 - 3, ^uint32(0) - uint32(n) - 4} {
						seen := make([]bool, n)
						cnt := 0
						for i := 0; i < n; i++ {
							c1.BlockIndex = base + uint32(i)
							p := c1.GetPrimaryIndex(0)
							evals.Add(1)
							if p < uint(n) && !seen[p] {
								seen[p] = true
								cnt++
							}
						}
						if cnt != n {
							fail("C06/rotation-heights", fmt.Sprintf("N=%d base height %d: %d distinct primaries over N consecutive heights", n, base, cnt))
						}
					}
				}
			}
		}()
	}
	for _, n := range Ns {
		work <- n
	}
	close(work)
	wg.Wait()
	// long-lived instances: the validator count changes between heights (Reset), in both directions, for every ordered
	// pair (N1, N2) up to maxT; after every re-initialisation the arithmetic must follow the new list
	maxT := 96
	if tier != "quick" {
		maxT = 400
	}
	expF := func(n int) int {
		f := 0
		for 3*(f+1)+1 <= n {
			f++
		}
		return f
	}
	var transitions atomic.Int64
	tw := make(chan int, 64)
	var twg sync.WaitGroup
	for g := 0; g < runtime.NumCPU(); g++ {
		twg.Add(1)
		go func() {
			defer twg.Done()
			for n1 := range tw {
				d, setN, setH := bareNodeDyn(n1, 10, -1)
				d.Start(0)
				h := uint32(10)
				chk := func(n int, how string) {
					transitions.Add(1)
					c := &d.Context
					f := expF(n)
					if c.N() != n || c.F() != f || c.M() != n-f {
						fail("C06/quorum-arithmetic/after-validator-count-change", fmt.Sprintf("%s: library N/F/M = %d/%d/%d, expected %d/%d/%d", how, c.N(), c.F(), c.M(), n, f, n-f))
					}
					for v := 0; v < 4; v++ {
						exp := uint(((int64(c.BlockIndex)-int64(v))%int64(n) + int64(n)) % int64(n))
						if p := c.GetPrimaryIndex(byte(v)); p != exp {
							fail("C06/primary-index/after-validator-count-change", fmt.Sprintf("%s: height %d view %d: GetPrimaryIndex=%d, expected %d", how, c.BlockIndex, v, p, exp))
						}
					}
					if c.PrimaryIndex != c.GetPrimaryIndex(c.ViewNumber) {
						fail("C06/primary-index/after-validator-count-change", fmt.Sprintf("%s: stored PrimaryIndex %d, GetPrimaryIndex %d", how, c.PrimaryIndex, c.GetPrimaryIndex(c.ViewNumber)))
					}
				}
				chk(n1, fmt.Sprintf("Start with N=%d", n1))
				for n2 := 1; n2 <= maxT; n2++ {
					if n2 == n1 {
						continue
					}
					h++
					setN(n2)
					setH(h)
					d.Reset(0)
					chk(n2, fmt.Sprintf("Reset %d -> %d validators", n1, n2))
					h++
					setN(n1)
					setH(h)
					d.Reset(0)
					chk(n1, fmt.Sprintf("Reset %d -> %d validators", n2, n1))
				}
			}
		}()
	}
	for n1 := 1; n1 <= maxT; n1++ {
		tw <- n1
	}
	close(tw)
	twg.Wait()
	evals.Add(transitions.Load())
	nontriv.Add(transitions.Load())
	for _, n := range []int{1, 4, 7, 65535} {
		d := bareNode(n, 1<<32-1, -1) // CurrentHeight()+1 wraps to 0
		if n <= 1024 {
			d.Start(0)
		} else {
			d.Context.Validators = make([]dbft.PublicKey, n)
		}
		samples = append(samples, map[string]any{"N": n, "F": d.F(), "M": d.M(), "BlockIndex_after_wrap": d.BlockIndex,
			"primary_v0": d.GetPrimaryIndex(0), "primary_v1": d.GetPrimaryIndex(1), "primary_v255": d.GetPrimaryIndex(255)})
	}
	return finishEnum("C06", tier, start, evals.Load(), nontriv.Load(), fails, samples,
		fmt.Sprintf("every N in the tier's list (%d values; thorough = all 1..65535) x %d heights incl. 32-bit boundaries and CurrentHeight()+1 wrap x all 256 views, on real Context objects (via Start for N<=%d: %d contexts, exported fields above); plus %d re-initialisations of long-lived instances whose validator count changes N1 -> N2 -> N1 for every ordered pair up to %d; non-trivial = N>1; oracle = independent big-integer arithmetic", len(Ns), len(heights), startN, viaStart.Load(), transitions.Load(), maxT),
		true, []string{"GetPrimaryIndex/N/F/M read only Validators and BlockIndex (verified by reading context.go); for N above the Start threshold the Context is populated through those exported fields", "height windows (N consecutive heights) are enumerated for N<=4096 only"})
}

// finishEnum writes evidence for an enumerator check and prints the verdict lines.
func finishEnum(id, tier string, start time.Time, evals, nontriv int64, fails map[string]c06fail, samples []any, rule string, exhaustive bool, assumptions []string) int {
	known := loadKnown()
	exit, nviol := 0, 0
	var keys []string
	for k := range fails {
		keys = append(keys, k)
	}
	slices.Sort(keys)
	var lines []string
	for _, k := range keys {
		f := fails[k]
		path := fmt.Sprintf("%s/replays/%s-%08x.json", outDir(), id, uint32(fnvStr(k)))
		writeJSON(path, map[string]any{"property": id, "key": k, "msg": f.msg, "replay": "re-run ./check " + id + "; the failing input is in msg"})
		if what, ok := known.open(id, k); ok {
			lines = append(lines, fmt.Sprintf("KNOWN-FINDING: property=%s %s [%s]", id, what, k))
			continue
		}
		nviol++
		exit = 1
		lines = append(lines, fmt.Sprintf("VIOLATION property=%s replay=%s", id, path))
		fmt.Fprintf(logw(), "violation %s: %s\n", k, f.msg)
	}
	ev := &Evidence{PropertyID: id, Tier: tier, Seed: seedEnv(), Level: "exploration", Assumptions: assumptions, WallS: time.Since(start).Seconds(), Violations: nviol,
		Coverage: map[string]any{"evaluations": evals, "distinct_nontrivial": nontriv, "rule": rule, "samples": samples, "exhaustive": exhaustive, "known_findings_printed": lines}}
	writeEvidence(ev)
	for _, l := range lines {
		fmt.Println(l)
	}
	fmt.Printf("%s %s: evaluations=%d nontrivial=%d exhaustive=%v violations=%d wall=%.1fs\n", id, tier, evals, nontriv, exhaustive, nviol, time.Since(start).Seconds())
	return exit
}

func init() {
	checks["C06"] = &CheckSpec{ID: "C06", Custom: c06Check}
}

// ------------------------------------------------------------------ C15

type c15case struct {
	Inc      uint64 `json:"inc"`
	Prev     uint64 `json:"prev"`
	Clock    int64  `json:"clock"`
	Pool     []H    `json:"pool"`
	Height   uint32 `json:"height"`
	View     byte   `json:"view"`
	N        int    `json:"n"`
	AMEV     bool   `json:"amev"`
	Dyn      bool   `json:"dyn"`
	ViaReset bool   `json:"via_reset"`
	Aband    bool   `json:"abandoned_proposal"` // a proposal of view 0 stamped ahead of the local clock was received before the view change
}

func c15Pools() [][]H {
	txs := []H{201, 202, 203}
	out := [][]H{{}}
	var rec func(cur []H)
	rec = func(cur []H) {
		if len(cur) > 0 {
			out = append(out, slices.Clone(cur))
		}
		if len(cur) == 3 {
			return
		}
		for _, t := range txs {
			if !slices.Contains(cur, t) {
				rec(append(cur, t))
			}
		}
	}
	rec(nil)
	// answers of GetVerified that name a transaction twice (unusual, but the proposal is "the pool's list, in order")
	out = append(out, []H{201, 201}, []H{201, 202, 201})
	return out
}

// c15Drive runs one case on a real instance; returns the proposals observed and failures.
func c15Drive(c c15case, fail func(key, msg string)) (proposals int) {
	sc := &Scenario{Name: "c15", N: c.N, AMEV: -1, MaxView: 4, TSIncrement: c.Inc, TxPerBlock: 3, Pool: c.Pool,
		StartHeight: c.Height - 1, ZeroStart: true, PrevTS: c.Prev, PrevTSSet: true, ClockNs: c.Clock}
	if c.AMEV {
		sc.AMEV = 0
	}
	if c.Dyn {
		sc.MaxTimePerBlock = 30 * time.Second
	}
	x := primaryAt(c.Height, c.View, c.N)
	for i := 0; i < c.N; i++ {
		k := kSilent
		if i == x {
			k = kHonest
		}
		sc.Kinds = append(sc.Kinds, k)
	}
	sc.finish()
	w := newWorld(sc, nil)
	n := w.nodes[x]
	inc := c.Inc
	type pre struct {
		prev   uint64
		pool   []H
		height uint32
	}
	snap := func() pre { return pre{n.tipTS, slices.Clone(n.pool), n.height + 1} }
	check := func(when string, st pre) {
		for _, p := range n.callBroadcasts {
			if p.typ != dbft.PrepareRequestType {
				continue
			}
			proposals++
			r := p.body.(*prepReq)
			cx := n.ctx()
			id := fmt.Sprintf("%+v @%s (prev %d, pool %v, height %d)", c, when, st.prev, st.pool, st.height)
			trunc := uint64(c.Clock) / inc * inc
			if !(r.ts > st.prev) {
				fail("C15/timestamp-not-increasing", fmt.Sprintf("proposal ts %d <= previous block ts %d: %s", r.ts, st.prev, id))
			}
			if trunc > st.prev+inc && r.ts != trunc {
				fail("C15/timestamp-not-truncated-clock", fmt.Sprintf("proposal ts %d, clock %d truncated to %d (> prev+inc): %s", r.ts, c.Clock, trunc, id))
			}
			want := st.pool
			if len(want) > 3 {
				want = want[:3]
			}
			if !slices.Equal(r.txs, want) {
				fail("C15/transactions-differ-from-pool", fmt.Sprintf("proposal lists %v, verified pool returned %v: %s", r.txs, want, id))
			}
			a := w.lastNPR
			if a == nil || a.ts != r.ts || a.nonce != r.nonce || !slices.Equal(a.txs, r.txs) {
				fail("C15/payload-differs-from-constructor-args", "broadcast proposal differs from NewPrepareRequest arguments: "+id)
			}
			if cx.Timestamp != r.ts || cx.Nonce != r.nonce || !slices.Equal(cx.TransactionHashes, r.txs) {
				fail("C15/context-differs-from-proposal", "Context.Timestamp/Nonce/TransactionHashes differ from the broadcast proposal: "+id)
			}
			if p.height != st.height || (st.height == c.Height && p.view != c.View) {
				fail("C15/wrong-epoch", "proposal for an unexpected height/view: "+id)
			}
			// the primary's own block for the proposal
			if n.amevAt(st.height) {
				if pb, ok := cx.MakePreHeader().(*PreBlock); !ok || pb == nil || pb.ts != r.ts || pb.nonce != r.nonce || !slices.Equal(pb.txHashes, r.txs) || pb.index != st.height {
					fail("C15/own-preblock-differs", "primary's own pre-block is not built from the proposal's values: "+id)
				}
			} else {
				if b, ok := cx.MakeHeader().(*Block); !ok || b == nil || b.ts != r.ts || b.nonce != r.nonce || !slices.Equal(b.txHashes, r.txs) || b.index != st.height {
					fail("C15/own-block-differs", "primary's own block is not built from the proposal's values: "+id)
				}
			}
		}
	}
	// Start already ran inside newWorld; its pre-state is the scenario's
	check("Start", pre{c.Prev, slices.Clone(c.Pool), c.Height})
	if c.View > 0 {
		if c.Aband {
			// the primary of view 0 (its clock runs ahead) proposed; the proposal is abandoned by the view change below
			// and must not leak into this node's own proposal: "previous" means the previous block
			p0 := primaryAt(c.Height, 0, c.N)
			ats := (uint64(c.Clock)/inc + 5) * inc
			if ats <= c.Prev {
				ats = c.Prev + 5*inc
			}
			st := snap()
			n.Receive(&Payload{typ: dbft.PrepareRequestType, height: c.Height, view: 0, idx: uint16(p0), body: &prepReq{ts: ats, nonce: 77, txs: nil}})
			check("abandoned proposal", st)
		}
		for i := 0; i < c.N; i++ {
			if i == x {
				continue
			}
			cv := &Payload{typ: dbft.ChangeViewType, height: c.Height, view: c.View - 1, idx: uint16(i), body: &changeView{newView: c.View, reason: dbft.CVTimeout, ts: 1}}
			st := snap()
			n.Receive(cv)
			check("ChangeView", st)
		}
		if n.d.ViewNumber != c.View {
			fail("C15/harness", fmt.Sprintf("harness could not reach view %d: %+v", c.View, c))
			return
		}
	} else if c.ViaReset {
		st := snap()
		n.Reset()
		check("Reset", st)
	}
	for i := 0; i < 3 && n.wantsTimer() && !n.ctx().RequestSentOrReceived(); i++ {
		st := snap()
		n.Timeout(n.t.h, n.t.v)
		check("OnTimeout", st)
	}
	for _, v := range w.viol {
		if v.Prop == "C11" {
			fail(v.Key, v.Msg)
		}
	}
	return
}

func c15Cases(shard, shards int, tier string) []c15case {
	var out []c15case
	incs := []uint64{1, 1000, 1_000_000, 1_000_000_000, 7_000_000, 13_000_000_000, 1 << 20}
	i := 0
	for _, inc := range incs {
		for _, base := range []uint64{0, 1_700_000_000_000_000_000} {
			for _, pm := range []uint64{0, 1, inc - 1, inc, 7*inc - 1, 7 * inc, 7*inc + 1} {
				prev := base + pm
				for _, d := range []int64{-2 * int64(inc), -1, 0, 1, int64(inc) - 1, int64(inc), int64(inc) + 1, 3*int64(inc) + int64(inc)/2} {
					clock := int64(prev) + d
					if clock < 0 {
						continue
					}
					if clock == 0 {
						clock = 0 // ClockNs==0 means "default epoch": shift by nothing, handled below
					}
					for _, pool := range c15Pools() {
						for _, n := range []int{1, 4} {
							for _, h := range []uint32{1, uint32(n), 1<<32 - 1} {
								views := []byte{0}
								if n == 4 {
									views = []byte{0, 1, 2}
								}
								for _, v := range views {
									for _, amev := range []bool{false, true} {
										for _, dyn := range []bool{false, true} {
											for _, vr := range []bool{false, true} {
												if vr && v > 0 {
													continue
												}
												for _, ab := range []bool{false, true} {
													if ab && v == 0 {
														continue
													}
													i++
													if i%shards != shard {
														continue
													}
													if clock == 0 {
														continue
													}
													out = append(out, c15case{inc, prev, clock, pool, h, v, n, amev, dyn, vr, ab})
												}
											}
										}
									}
								}
							}
						}
					}
				}
			}
		}
	}
	return out
}

func init() {
	customJobs["c15"] = func(j *Job, _ time.Duration) *Result {
		res := &Result{Scenario: j.Scenario.Name, Exhaustive: true, Stats: newStats(), Extra: map[string]int{}}
		fails := map[string]string{}
		cases := c15Cases(j.Args["shard"], j.Args["shards"], "")
		for _, c := range cases {
			p := c15Drive(c, func(k, m string) {
				if _, ok := fails[k]; !ok {
					fails[k] = m
				}
			})
			res.Extra["drives"]++
			res.Extra["proposals"] += p
			if p == 0 {
				res.Extra["drives_without_proposal"]++
			}
		}
		for k, m := range fails {
			res.Found = append(res.Found, Found{Violation: Violation{Prop: "C15", Key: k, Msg: m}})
		}
		if len(cases) > 0 {
			res.Sample = []string{fmt.Sprintf("%+v", cases[0]), fmt.Sprintf("%+v", cases[len(cases)/2])}
		}
		return res
	}
	checks["C15"] = &CheckSpec{ID: "C15", Custom: func(tier string) int {
		start := time.Now()
		shards := 32
		var jobs []*Job
		for s := 0; s < shards; s++ {
			jobs = append(jobs, &Job{Kind: "c15", Scenario: &Scenario{Name: fmt.Sprintf("c15-shard-%d", s)}, BudgetS: 600, Args: map[string]int{"shard": s, "shards": shards}})
		}
		rs := runJobs(jobs, 0, start.Add(20*time.Minute))
		fails := map[string]c06fail{}
		var drives, props, empty int64
		var samples []any
		bad := false
		for _, r := range rs {
			if r.Error != "" {
				fmt.Fprintln(os.Stderr, "ERROR", r.Scenario, r.Error)
				bad = true
				continue
			}
			drives += int64(r.Extra["drives"])
			props += int64(r.Extra["proposals"])
			empty += int64(r.Extra["drives_without_proposal"])
			for _, f := range r.Found {
				if _, ok := fails[f.Key]; !ok {
					fails[f.Key] = c06fail{f.Key, f.Msg}
				}
			}
			if len(samples) < 4 {
				for _, s := range r.Sample {
					samples = append(samples, s)
				}
			}
		}
		rc := finishEnum("C15", tier, start, props, drives-empty, fails, samples,
			"full grid: increment {1ns,1us,1ms,1s,7ms,13s,2^20ns} x previous timestamp {0,1,inc-1,inc,7inc-1,7inc,7inc+1} (+0 and +1.7e18 base) x clock = previous + {-2inc,-1,0,+1,inc-1,inc,inc+1,3.5inc} x every ordered selection of <=3 of 3 pool transactions (16 lists) and two lists naming a transaction twice x height {1,N,2^32-1} x view {0,1,2} (N=4, reached through real ChangeView quorums) x N {1,4} x anti-MEV off/on x dynamic block time off/on x {proposal forced in Start, proposal after Reset+OnTimeout} x (views>0) {no earlier proposal, a view-0 proposal stamped ahead of the local clock received and abandoned}; each case is one real Start/OnReceive/Reset/OnTimeout drive; evaluations = proposals broadcast and checked (a single-node drive proposes for two heights), distinct_nontrivial = distinct grid points whose drive produced at least one proposal",
			true, []string{"the same grid in both tiers (it is small enough to run in full)", "reading of 'whenever that is larger': the truncated clock must be used whenever it exceeds previous timestamp + increment; otherwise only 'strictly greater than the previous timestamp' is required"})
		if bad {
			return 2
		}
		return rc
	}}
}
