package main

// C05 (d)/(e): differential "twin" oracles evaluated right after the real node X
// re-initialised at a new height (Reset / ledger skip) in an E2 exploration.
//
//  (e) early payloads: the state after (history with payloads of the new height
//      delivered early, Reset) equals the state after (history without them,
//      Reset, then those payloads delivered in the cache's replay order).
//  (d) nothing retained: it also equals the state of a node that was started
//      afresh at that ledger position and received only those payloads — modulo
//      the fields the library deliberately carries over (round-trip estimates,
//      lastBlock* timing, proposal scratch values Timestamp/Nonce).

import (
	"fmt"
	"sort"

	"github.com/nspcc-dev/dbft"
)

var fpTwinSkip = map[string]bool{"rttEstimates": true, "lastBlockTime": true, "lastBlockIndex": true, "lastBlockView": true,
	"Timestamp": true, "Nonce": true, "LastSeenMessage": true}

func catOf(t dbft.MessageType) int {
	switch t {
	case dbft.PrepareRequestType, dbft.PrepareResponseType:
		return 0
	case dbft.ChangeViewType:
		return 1
	case dbft.PreCommitType:
		return 2
	case dbft.CommitType:
		return 3
	}
	return -1
}

func (x *Explorer) twinState(w *World, path []Event) {
	if len(path) == 0 {
		return
	}
	last := path[len(path)-1]
	if last.K != "reset" && last.K != "skip" {
		return
	}
	nv := len(w.viol)
	w.twinCheck(x.res.Extra)
	if len(w.viol) > nv {
		x.check(w, append(append([]Event{}, path...), Event{K: "twin", N: w.sc.E2.X}))
	}
}

// twinCheck compares the real node, which has just re-initialised, with its twins (see the file comment).
func (w *World) twinCheck(extra map[string]int) {
	path := w.hist
	if len(path) > 0 && path[len(path)-1].K == "twin" {
		path = path[:len(path)-1]
	}
	X := w.e2X()
	if X.crashed || len(w.viol) > 0 {
		return
	}
	sc := w.sc
	newH := X.d.BlockIndex
	// --- twin 1: same history without the early payloads of the new height, which are delivered after the Reset
	w2 := newWorld(sc, newStats())
	x2 := w2.e2X()
	type slot struct {
		cat int
		idx uint16
	}
	early := map[slot]*Payload{}
	var future []*Payload // payloads of heights above the new one: legitimately still parked in the cache
	for _, e := range path {
		if e.K == "inj" {
			p := w2.e2.syms[e.A].mk(w2)
			if p == nil {
				return // symbol availability depended on the removed payloads: not comparable
			}
			if p.height > newH {
				future = append(future, p)
			}
			if p.height == newH && x2.d.BlockIndex < newH {
				if c := catOf(p.typ); c >= 0 && int(p.idx) < len(x2.d.Validators) {
					early[slot{c, p.idx}] = p
				}
				continue
			}
		}
		w2.apply(e)
	}
	if len(early) == 0 {
		// still compare with the freshly started node below
	}
	var slots []slot
	for s := range early {
		slots = append(slots, s)
	}
	sort.Slice(slots, func(i, j int) bool {
		if slots[i].cat != slots[j].cat {
			return slots[i].cat < slots[j].cat
		}
		return slots[i].idx < slots[j].idx
	})
	for _, s := range slots {
		x2.Receive(early[s])
	}
	if extra != nil {
		extra["twin_comparisons"]++
		if len(early) > 0 {
			extra["twin_with_early_payloads"]++
		}
	}
	if len(w2.viol) > 0 {
		return
	}
	a, b := fingerprint(X, fpSeenSkip), fingerprint(x2, fpSeenSkip)
	if a != b {
		w.violate("C05", "C05/early-payloads-not-taken-into-account", X,
			fmt.Sprintf("state after (early payloads of height %d, Reset) differs from (Reset, then the same %d payloads): %s", newH, len(early), diffFields(X, x2, fpSeenSkip)))
	}
	// --- twin 2: a node started afresh at this ledger position, receiving only the early payloads
	if X.height+1 != newH {
		// the early payloads completed the new height inside the Reset call itself: the ledger has moved on, the
		// "ledger position at re-initialisation" is gone (twin 1 above still compares the two orders)
		return
	}
	sc3 := *sc
	sc3.e2cache = nil
	sc3.StartHeight = X.height
	sc3.ZeroStart = true
	sc3.TipHash, sc3.TipSet = X.tip, true
	sc3.PrevTS, sc3.PrevTSSet = X.tipTS, true
	sc3.FreshPools = map[int][]H{X.id: append([]H{}, X.pool...)}
	sc3.FreshKnown = map[int][]H{}
	for h := range X.known {
		sc3.FreshKnown[X.id] = append(sc3.FreshKnown[X.id], h)
	}
	w3 := newWorld(&sc3, newStats())
	x3 := w3.e2X()
	// Start proposes at once when the node is primary, Reset waits for the timer: give the twin the same entry
	// path as the node under test (trivial history = Start followed by Reset)
	x3.Reset()
	for _, s := range slots {
		x3.Receive(early[s])
	}
	for _, p := range future {
		x3.Receive(p)
	}
	if len(w3.viol) > 0 {
		return
	}
	c, d := fingerprint(X, fpTwinSkip), fingerprint(x3, fpTwinSkip)
	if c != d {
		w.violate("C05", "C05/state-retained-across-heights", X,
			fmt.Sprintf("state after (history, Reset to height %d) differs from a node started afresh there: %s", newH, diffFields(X, x3, fpTwinSkip)))
	}
}
