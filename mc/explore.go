package main

// Deviation-bounded depth-first explorer over real-code worlds with state
// caching (CHESS-style iterative context bounding; a state is re-expanded only
// when reached with a larger remaining budget). Mode "all"/"focus": every
// alternative costs nothing, i.e. full state-space search with deduplication.
// Successor of a non-default choice = replay of the path on fresh instances.

import (
	"fmt"
	"os"
	"slices"
	"time"
)

type Found struct {
	Violation
	Path     []Event  `json:"path"`
	Trace    []string `json:"trace,omitempty"`
	Scenario *Scenario `json:"scenario"`
	Confirmed int     `json:"confirmed"`
}

type Result struct {
	Scenario    string   `json:"scenario"`
	Mode        string   `json:"mode"`
	K           int      `json:"k"`
	States      int      `json:"states"`
	Transitions int      `json:"transitions"`
	Replays     int      `json:"replays"`
	MaxDepth    int      `json:"max_depth"`
	Terminal    int      `json:"terminal"`
	Done        int      `json:"done_terminals"`
	Stuck       int      `json:"stuck_terminals"`
	Truncated   int      `json:"truncated"`
	Exhaustive  bool     `json:"exhaustive"`
	Found       []Found  `json:"found,omitempty"`
	Stats       *Stats   `json:"stats"`
	Sample      []string `json:"sample,omitempty"`
	Sample2     []string `json:"sample_with_deviations,omitempty"`
	Validated   int      `json:"validated"`
	WallS       float64  `json:"wall_s"`
	Error       string   `json:"error,omitempty"`
	Extra       map[string]int `json:"extra,omitempty"`
}

type Explorer struct {
	sc       *Scenario
	seen     map[[2]uint64]int16
	res      *Result
	deadline time.Time
	foundKey map[string]bool
	stateCap int
	onState  func(w *World, path []Event) // optional per-state hook (C11 sweep, liveness oracles)
	onEdge   func(w *World, path []Event) // optional hook for every transition, also into an already known state (history-dependent oracles: C05 twins)
	onTerminal func(w *World, path []Event)
	stopOnViolation bool
	clones int
	prop string // property under check
}

func newExplorer(sc *Scenario, budget time.Duration) *Explorer {
	return &Explorer{sc: sc, seen: map[[2]uint64]int16{}, foundKey: map[string]bool{},
		res:      &Result{Scenario: sc.Name, Mode: sc.Mode, K: sc.K, Exhaustive: true, Stats: newStats(), Extra: map[string]int{}},
		deadline: time.Now().Add(budget), stateCap: capFor(sc)}
}

func (x *Explorer) replay(path []Event) *World {
	w := newWorld(x.sc, x.res.Stats)
	for _, e := range path {
		w.apply(e)
	}
	x.res.Replays++
	return w
}

// succ returns the successor of w by event e: a deep copy of w plus one real API call. The copy is an
// accelerator only; the first copies of a run and a sample of the later ones are compared with the replay
// of the whole path on fresh instances.
func (x *Explorer) succ(w *World, path []Event, e Event) *World {
	if noClone {
		w2 := x.replay(path)
		w2.apply(e)
		return w2
	}
	x.clones++
	verify := x.clones <= 200 || x.clones%211 == 0
	w2 := w.clone()
	if verify {
		for _, n := range w.nodes {
			n.fpValid = false
		}
		for _, n := range w2.nodes {
			n.fpValid = false
		}
		if w2.key() != w.key() {
			panic(harnessFault{"snapshot accelerator: copy differs from the original world"})
		}
	}
	w2.apply(e)
	if verify {
		w3 := x.replay(path)
		w3.apply(e)
		for _, n := range w2.nodes {
			n.fpValid = false
		}
		if w3.key() != w2.key() || len(w3.viol) != len(w2.viol) {
			panic(harnessFault{fmt.Sprintf("snapshot accelerator: successor by copy differs from successor by replay after %s (path length %d)", e.String(), len(path))})
		}
		x.res.Extra["copy_vs_replay_checks"]++
		curWorld = w2
	}
	return w2
}

var noClone = os.Getenv("VERIF_NOCLONE") != ""

func (x *Explorer) check(w *World, path []Event) bool {
	bad := false
	for _, v := range w.viol {
		// exploration continues past violations of other properties (they are reported as side findings
		// and decided by their own checks); it stops at a violation of the property under check
		if x.prop == "" || v.Prop == x.prop {
			bad = true
		}
		if x.foundKey[v.Key] {
			continue
		}
		x.foundKey[v.Key] = true
		x.res.Found = append(x.res.Found, Found{Violation: v, Path: append([]Event(nil), path...), Scenario: x.sc})
	}
	return bad
}

const inf = 30000

func (x *Explorer) run() *Result {
	start := time.Now()
	// determinism guard: the default path twice, identical keys and logs
	a, la := x.defaultRun()
	b, lb := x.defaultRun()
	if a != b || len(la) != len(lb) {
		panic(harnessFault{fmt.Sprintf("nondeterministic default path in scenario %s", x.sc.Name)})
	}
	for i := range la {
		if la[i] != lb[i] {
			panic(harnessFault{fmt.Sprintf("nondeterministic default path in scenario %s at line %d:\n%s\n%s", x.sc.Name, i, la[i], lb[i])})
		}
	}
	x.res.Validated = 2
	x.res.Sample = la
	budget := x.sc.K
	if x.sc.Mode != "kbound" {
		budget = inf
	}
	if x.sc.Mode == "e2" || x.sc.Mode == "bfs" {
		x.bfs()
	} else {
		w := newWorld(x.sc, x.res.Stats)
		if !x.check(w, nil) {
			x.dfs(nil, w, budget)
		}
	}
	x.res.WallS = time.Since(start).Seconds()
	return x.res
}

// cev is a compact event (frontier paths of the breadth-first modes).
type cev struct {
	k    uint8
	n    uint8
	a, b int32
	p    H
}

var evKinds = []string{"deliver", "dup", "timeout", "stale", "reset", "tx", "newtx", "sync", "perm", "restart", "byz", "inj", "skip", "hold", "tick", "txpool", "sweep", "twin", "endcheck", "epochs", "detcheck", "watch"}

func compact(e Event) cev {
	return cev{uint8(slices.Index(evKinds, e.K)), uint8(e.N), int32(e.A), int32(e.B), e.P}
}
func (c cev) event() Event { return Event{K: evKinds[c.k], N: int(c.n), A: int(c.a), B: int(c.b), P: c.p} }

func expand(path []cev) []Event {
	r := make([]Event, len(path))
	for i, c := range path {
		r[i] = c.event()
	}
	return r
}

// bfs: breadth-first search with state deduplication; successors by replay on fresh instances.
func (x *Explorer) bfs() {
	root := newWorld(x.sc, x.res.Stats)
	if x.check(root, nil) {
		return
	}
	x.seen[root.key()] = 1
	x.res.States = 1
	if x.onState != nil {
		x.onState(root, nil)
	}
	frontier := [][]cev{nil}
	maxDepth := x.sc.MaxDepth
	for depth := 0; len(frontier) > 0; depth++ {
		if depth >= maxDepth {
			x.res.Exhaustive = false
			x.res.Extra["frontier_at_depth_cap"] = len(frontier)
			break
		}
		var next [][]cev
		for fi, path := range frontier {
			if fi&255 == 0 && (time.Now().After(x.deadline) || x.res.States >= x.stateCap) {
				x.res.Exhaustive = false
				x.res.Truncated++
				x.res.Extra["frontier_left_at_cap"] = len(frontier) - fi
				x.res.Extra["depth_completed"] = depth
				x.res.MaxDepth = depth
				return
			}
			evp := expand(path)
			w := x.replay(evp)
			evs := w.enabled()
			if len(evs) == 0 {
				x.res.Terminal++
				if x.sc.Oracle != "" {
					// terminal state of a liveness-flavoured scenario: everything deliverable has been delivered
					w.endCheck()
					if len(w.viol) > 0 {
						x.check(w, append(append([]Event{}, evp...), Event{K: "endcheck"}))
					} else if w.done() {
						x.res.Done++
					}
				}
				continue
			}
			for i, e := range evs {
				w2 := w
				if i < len(evs)-1 {
					w2 = x.succ(w, evp, e)
				} else {
					w2.apply(e)
				}
				x.res.Transitions++
				np := append(append(make([]cev, 0, len(path)+1), path...), compact(e))
				if len(w2.viol) > 0 && x.check(w2, expand(np)) {
					continue
				}
				k := w2.key()
				if _, ok := x.seen[k]; ok {
					if x.onEdge != nil {
						x.onEdge(w2, expand(np))
					}
					continue
				}
				x.seen[k] = 1
				x.res.States++
				if x.onState != nil {
					x.onState(w2, expand(np))
				}
				next = append(next, np)
			}
		}
		x.res.MaxDepth = depth + 1
		x.res.Extra["depth_completed"] = depth + 1
		frontier = next
	}
}

func (x *Explorer) defaultRun() ([2]uint64, []string) {
	w := newWorldLogged(x.sc)
	for {
		evs := w.enabled()
		if len(evs) == 0 || evs[0].Cost != 0 {
			break
		}
		w.apply(evs[0])
		if len(w.viol) > 0 {
			break
		}
	}
	return w.key(), w.log
}

var forceLog bool

func newWorldLogged(sc *Scenario) *World {
	forceLog = true
	defer func() { forceLog = false }()
	return newWorld(sc, newStats())
}

func (x *Explorer) dfs(path []Event, w *World, budget int) {
	for {
		if x.res.States&1023 == 0 && time.Now().After(x.deadline) || x.res.States >= x.stateCap {
			x.res.Exhaustive = false
			x.res.Truncated++
			return
		}
		key := w.key()
		if old, ok := x.seen[key]; ok {
			if int(old) >= budget+1 {
				return
			}
		} else {
			x.res.States++
			if x.onState != nil {
				x.onState(w, path)
			}
		}
		x.seen[key] = int16(budget + 1)
		if len(path) > x.res.MaxDepth {
			x.res.MaxDepth = len(path)
		}
		evs := w.enabled()
		if len(evs) == 0 {
			x.res.Terminal++
			if w.done() {
				x.res.Done++
			} else {
				x.res.Stuck++
			}
			if x.res.Sample2 == nil && x.sc.Mode == "kbound" && budget < x.sc.K {
				// one explored execution with deviations, written out
				for _, e := range path {
					x.res.Sample2 = append(x.res.Sample2, fmt.Sprintf("%s n%d %x %d %d cost=%d", e.K, e.N, uint64(e.P)&0xffff, e.A, e.B, e.Cost))
				}
			}
			if x.onTerminal != nil {
				x.onTerminal(w, path)
			}
			if x.sc.Oracle != "" && !w.done() {
				w.endCheck()
				x.check(w, append(append([]Event{}, path...), Event{K: "endcheck"}))
			}
			return
		}
		unbounded := x.sc.Mode != "kbound"
		defIdx := -1
		if evs[0].Cost == 0 || unbounded {
			defIdx = 0
		}
		if budget > 0 {
			for i, e := range evs {
				if i == defIdx {
					continue
				}
				cost := e.Cost
				if unbounded {
					cost = 0
				}
				if cost > budget {
					continue
				}
				np := append(append(make([]Event, 0, len(path)+1), path...), e)
				w2 := x.succ(w, path, e)
				x.res.Transitions++
				if x.check(w2, np) {
					continue
				}
				x.dfs(np, w2, budget-cost)
				if !x.res.Exhaustive && time.Now().After(x.deadline) {
					return
				}
			}
		}
		if defIdx < 0 {
			x.res.Terminal++
			return
		}
		w.apply(evs[defIdx])
		x.res.Transitions++
		path = append(append(make([]Event, 0, len(path)+1), path...), evs[defIdx])
		if x.check(w, path) {
			return
		}
	}
}

// confirm re-executes a violating path on fresh instances, without the explorer,
// k times; returns how many times the same violation key re-appeared and the trace.
func confirm(f *Found, times int) (int, []string) {
	ok := 0
	var trace []string
	for i := 0; i < times; i++ {
		w := newWorldLogged(f.Scenario)
		for _, e := range f.Path {
			w.apply(e)
		}
		for _, v := range w.viol {
			if v.Key == f.Key {
				ok++
				break
			}
		}
		if i == 0 {
			trace = w.log
		} else if len(trace) != len(w.log) {
			return -1, trace
		}
	}
	return ok, trace
}

func capFor(sc *Scenario) int {
	if sc.E2 != nil && sc.E2.StateCap > 0 {
		return sc.E2.StateCap
	}
	return 60_000_000
}
