#!/bin/bash
# offline setup: build the explorer (warms the Go build cache)
set -eu
cd "$(dirname "$0")"
./build.sh
echo setup ok
