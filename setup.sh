#!/bin/bash
# offline setup: build the explorer and pre-compile the go1.26.8 test drivers (warms the Go build cache)
set -eu
cd "$(dirname "$0")"
source ./env.sh
./build.sh
mkdir -p scratch
cp /repo/go.sum e5/go.sum
(cd e5 && $GO test -count=1 -run '^$' ./timermc/ ./codecmc/ >/dev/null)
ov=scratch/setup_overlay.json
echo '{"Replace": {"/repo/internal/simulation/zz_verif_mc_test.go": "'$PWD'/e5/simmc/sim_mc_test.go.src"}}' > $ov
(cd /repo && $GO test -overlay=$OLDPWD/$ov -vet=off -count=1 -run '^$' ./internal/simulation/ >/dev/null)
(cd /repo && $GO test -race -overlay=$OLDPWD/$ov -vet=off -count=1 -run '^$' ./internal/simulation/ >/dev/null)
rm -f $ov
echo setup ok
