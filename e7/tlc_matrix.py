#!/usr/bin/env python3
"""C20 (E7): TLC over the five shipped TLA+ specs.

For every spec read from the repository working tree: a generated .cfg with the
shipped constants (from the .launch file), the shipped state constraint, exactly
the invariants the property names, for MaxView in {1,2} and every
(RMFault, RMDead) in {{},{i}} x {{},{j}} that the spec's own ASSUME admits
(a pair the ASSUME rejects is reported as such and not counted).
Complete breadth-first search per cell; a cell stopped by its time cap is
reported as exhaustive:false with the depth TLC had completed.
"""
import json, os, re, shutil, subprocess, sys, tempfile, time, hashlib
from concurrent.futures import ThreadPoolExecutor

VERIF = os.environ.get('VERIF_HOME', '/verif')
REPO = os.environ.get('VERIF_REPO', '/repo')
OUT = os.environ.get('VERIF_OUT', VERIF)
JAR = '/opt/veriftools/tla/tla2tools.jar:/opt/veriftools/tla/CommunityModules-deps.jar'

SPECS = [
    ('dbft', 'formal-models/dbft/dbft.tla'),
    ('dbft_antiMEV', 'formal-models/dbft_antiMEV/dbft.tla'),
    ('dbftCV3', 'formal-models/dbft2.1_threeStagedCV/dbftCV3.tla'),
    ('dbftCentralizedCV', 'formal-models/dbft2.1_centralizedCV/dbftCentralizedCV.tla'),
    ('dbftMultipool', 'formal-models/dbftMultipool/dbftMultipool.tla'),
]
NAMED_INVARIANTS = ['TypeOK', 'InvTwoBlocksAccepted', 'InvTwoBlocksAcceptedAdvanced', 'InvFaultNodesCount']


def launch_info(tla_path):
    d = os.path.dirname(tla_path)
    launch = [f for f in os.listdir(d) if f.endswith('.launch')]
    info = {'constants': {}, 'constraint': 'MaxViewConstraint'}
    if launch:
        txt = open(os.path.join(d, launch[0])).read()
        for m in re.finditer(r'listEntry value="([A-Za-z]+);;([^;]*);', txt):
            info['constants'][m.group(1)] = m.group(2)
        m = re.search(r'modelParameterContraint" value="([A-Za-z]*)"', txt)
        if m and m.group(1):
            info['constraint'] = m.group(1)
    return info


def fmt_set(s):
    return '{' + ', '.join(str(x) for x in sorted(s)) + '}'


def cell_id(spec, mv, f, d):
    return f"{spec}/MaxView={mv}/RMFault={fmt_set(f)},RMDead={fmt_set(d)}"


def run_cell(spec, tla_rel, mv, fault, dead, invariants, cap_s, workers):
    """Returns dict with status in {ok, violated, assume_rejected, capped, error}."""
    tla = os.path.join(REPO, tla_rel)
    info = launch_info(tla)
    text = open(tla).read()
    invs = [i for i in invariants if re.search(r'^' + i + r'\s*==', text, re.M)]
    work = tempfile.mkdtemp(prefix='tlc_', dir=os.path.join(VERIF, 'scratch'))
    try:
        mod = os.path.basename(tla)
        shutil.copy(tla, os.path.join(work, mod))
        consts = dict(info['constants'])
        consts['RM'] = consts.get('RM', '{0, 1, 2, 3}')
        consts['RMFault'] = fmt_set(fault)
        consts['RMDead'] = fmt_set(dead)
        consts['MaxView'] = str(mv)
        cfg = ['INIT Init', 'NEXT Next', 'CONSTRAINT ' + info['constraint'], 'CONSTANTS']
        for k, v in sorted(consts.items()):
            if re.search(r'^\s*' + k + r'\b', re.search(r'CONSTANTS(.*?)VARIABLES', text, re.S).group(1), re.M):
                cfg.append(f'  {k} = {v}')
        if invs:
            cfg.append('INVARIANTS ' + ' '.join(invs))
        open(os.path.join(work, 'm.cfg'), 'w').write('\n'.join(cfg) + '\n')
        cmd = ['java', '-XX:+UseParallelGC', '-Xmx12g', '-cp', JAR, 'tlc2.TLC', '-workers', str(workers), '-deadlock',
               '-metadir', os.path.join(work, 'states'), '-config', 'm.cfg', mod]
        t0 = time.time()
        try:
            p = subprocess.run(cmd, cwd=work, capture_output=True, text=True, timeout=cap_s)
            out, capped = p.stdout + p.stderr, False
        except subprocess.TimeoutExpired as e:
            out = (e.stdout.decode() if isinstance(e.stdout, bytes) else (e.stdout or '')) + ''
            capped = True
        res = {'cell': cell_id(spec, mv, fault, dead), 'spec': spec, 'max_view': mv, 'rm_fault': sorted(fault), 'rm_dead': sorted(dead),
               'invariants': invs, 'constraint': info['constraint'], 'constants': consts, 'wall_s': round(time.time() - t0, 1)}
        gen = dist = depth = queue = 0
        for m in re.finditer(r'([\d,]+) states generated.*?([\d,]+) distinct states found.*?([\d,]+) states left on queue', out):
            gen, dist, queue = (int(x.replace(',', '')) for x in m.groups())
        m = re.search(r'depth of the complete state graph search is (\d+)', out)
        if m:
            depth = int(m.group(1))
        else:
            for m in re.finditer(r'Progress\((\d+)\)', out):
                depth = int(m.group(1))
        res.update(states=dist, transitions=gen, depth=depth, queue=queue)
        if re.search(r'Assumption .* is false', out):
            res['status'] = 'assume_rejected'
        elif 'is violated' in out:
            inv = re.search(r'Invariant (\w+) is violated', out)
            res['status'] = 'violated'
            res['violated_invariant'] = inv.group(1) if inv else '?'
            tr = out[out.find('Error: Invariant'):]
            res['trace'] = tr[:60000]
            res['trace_states'] = len(re.findall(r'^State \d+:', tr, re.M))
        elif capped:
            res['status'] = 'capped'
        elif 'Model checking completed. No error has been found' in out:
            res['status'] = 'ok'
        else:
            res['status'] = 'error'
            res['output_tail'] = out[-3000:]
        return res
    finally:
        shutil.rmtree(work, ignore_errors=True)


def main():
    tier = 'quick'
    a = sys.argv[1:]
    if '--tier' in a:
        tier = a[a.index('--tier') + 1]
    t0 = time.time()
    os.makedirs(os.path.join(VERIF, 'scratch'), exist_ok=True)
    known = json.load(open(os.path.join(VERIF, 'known_findings.json')))
    known_open = {o['key']: o['what'] for o in known['open'] if o['property'] == 'C20'}

    E = frozenset()
    singles = [frozenset([i]) for i in range(4)]
    cells = []  # (spec, rel, mv, fault, dead, cap, workers)
    if tier == 'quick':
        cap, wk = 240, 4
        sp = dict(SPECS)
        for spec in ('dbft', 'dbft_antiMEV', 'dbftCV3'):
            cells.append((spec, sp[spec], 1, E, E, cap, wk))
        for f in (0, 3):
            cells.append(('dbft', sp['dbft'], 1, frozenset([f]), E, cap, wk))
        cells.append(('dbft_antiMEV', sp['dbft_antiMEV'], 1, frozenset([0]), E, cap, wk))
        cells.append(('dbft', sp['dbft'], 1, E, frozenset([1]), cap, wk))
        # ASSUME probes: pairs the shipped ASSUME rejects; if a spec admits them they are checked in full
        for spec, rel in SPECS:
            cells.append((spec, rel, 1, frozenset([0]), frozenset([1]), cap, 2))
            cells.append((spec, rel, 1, frozenset([2]), frozenset([3]), cap, 2))
    else:
        cap, wk = int(os.environ.get('C20_CELL_CAP', '600')), 4
        # cheap classes first (all-good, dead-only, then faulty), MaxView=1 before 2, so that a budget cut loses the
        # most expensive cells only
        classes = [[(E, E)], [(E, d) for d in singles], [(f, d) for f in singles for d in [E] + singles]]
        for mv in (1, 2):
            for cl in classes:
                for spec, rel in SPECS:
                    for f, d in cl:
                        cells.append((spec, rel, mv, f, d, cap, wk))
    deadline = t0 + (170 if tier == 'quick' else int(os.environ.get('C20_BUDGET', str(3 * 3600))))

    def job(c):
        spec, rel, mv, f, d, cap_s, workers = c
        if time.time() > deadline:
            return {'cell': cell_id(spec, mv, f, d), 'spec': spec, 'status': 'skipped', 'states': 0, 'transitions': 0, 'depth': 0, 'wall_s': 0}
        cid = cell_id(spec, mv, f, d)
        # known violating (cell, invariant): check the other invariants over the full space, then confirm the listed one
        kn = [k for k in known_open if k.startswith('C20/' + cid + '/')]
        invs = list(NAMED_INVARIANTS)
        res = None
        if kn:
            listed = [k.rsplit('/', 1)[1] for k in kn]
            res = run_cell(spec, rel, mv, f, d, [i for i in invs if i not in listed], cap_s, workers)
            res['known_invariants_excluded'] = listed
            if tier == 'thorough' and res['status'] in ('ok', 'capped'):
                conf = run_cell(spec, rel, mv, f, d, listed, cap_s, workers)
                res['known_confirmation'] = {k: conf.get(k) for k in ('status', 'violated_invariant', 'trace_states', 'wall_s')}
            return res
        return run_cell(spec, rel, mv, f, d, invs, cap_s, workers)

    par = 4 if tier == 'quick' else 4
    with ThreadPoolExecutor(max_workers=par) as ex:
        results = list(ex.map(job, cells))

    lines, nviol, hard = [], 0, False
    tot_s = tot_t = 0
    exhaustive = True
    os.makedirs(os.path.join(OUT, 'replays'), exist_ok=True)
    for r in results:
        tot_s += r.get('states', 0)
        tot_t += r.get('transitions', 0)
        st = r['status']
        if st in ('capped', 'skipped'):
            exhaustive = False
        if st == 'error':
            hard = True
            print('ERROR in cell', r['cell'], r.get('output_tail', '')[-1500:], file=sys.stderr)
        if st == 'violated':
            key = f"C20/{r['cell']}/{r['violated_invariant']}"
            path = os.path.join(OUT, 'replays', 'C20-' + hashlib.sha1(key.encode()).hexdigest()[:8] + '.txt')
            open(path, 'w').write(key + '\n' + json.dumps(r['constants']) + '\n' + r.get('trace', ''))
            if key in known_open:
                lines.append(f"KNOWN-FINDING: property=C20 {known_open[key]} [{key}]")
            else:
                nviol += 1
                lines.append(f"VIOLATION property=C20 replay={path}")
                print(f"violation {key}: TLC trace of {r.get('trace_states')} states", file=sys.stderr)
        if r.get('known_invariants_excluded'):
            for inv in r['known_invariants_excluded']:
                key = f"C20/{r['cell']}/{inv}"
                lines.append(f"KNOWN-FINDING: property=C20 {known_open[key]} [{key}]")
        r.pop('trace', None)
    counted = [r for r in results if r['status'] in ('ok', 'violated', 'capped')]
    samples = [{k: r.get(k) for k in ('cell', 'status', 'states', 'transitions', 'depth', 'invariants', 'constraint', 'wall_s')} for r in counted[:3]]
    ev = {
        'property_id': 'C20', 'tier': tier, 'seed': int(os.environ.get('VERIF_SEED', '0') or 0), 'level': 'model_checking',
        'coverage': {
            'states': max(tot_s, 1), 'transitions': max(tot_t, 1), 'traces_validated_against_impl': 0,
            'samples': samples or [{'note': 'no cell completed'}], 'exhaustive': exhaustive and not hard,
            'cells': results, 'cells_checked': len(counted), 'cells_rejected_by_assume': len([r for r in results if r['status'] == 'assume_rejected']),
            'rule': 'TLC 1.8.0 breadth-first search of each (spec, MaxView, RMFault, RMDead) cell read from the working tree; constants/constraint from the shipped .launch files; INVARIANTS = TypeOK, InvTwoBlocksAccepted[Advanced], InvFaultNodesCount; fault pairs are offered to the spec and kept iff its own ASSUME admits them',
            'explanation': 'traces_validated_against_impl is 0 by design: the property is about the models themselves (README: they deliberately do not follow the Go code)',
            'known_findings_printed': lines,
        },
        'assumptions': ['TLC fingerprint collisions negligible', 'liveness properties and Multipool InvDeadlock are not part of the property and are not checked',
                        'a cell stopped by its time cap counts only up to the depth TLC completed (exhaustive:false)'],
        'wall_s': round(time.time() - t0, 1), 'violations': nviol,
    }
    os.makedirs(os.path.join(OUT, 'evidence'), exist_ok=True)
    json.dump(ev, open(os.path.join(OUT, 'evidence', 'C20.json'), 'w'), indent=1)
    for l in sorted(set(lines)):
        print(l)
    print(f"C20 {tier}: cells={len(results)} checked={len(counted)} assume_rejected={ev['coverage']['cells_rejected_by_assume']} states={tot_s} transitions={tot_t} exhaustive={ev['coverage']['exhaustive']} violations={nviol} wall={ev['wall_s']}s")
    for r in results:
        print(f"   {r['cell']:70s} {r['status']:16s} states={r.get('states',0):>10} depth={r.get('depth',0):>3} {r.get('wall_s',0)}s", file=sys.stderr)
    if hard:
        sys.exit(2)
    sys.exit(1 if nviol else 0)


if __name__ == '__main__':
    main()
