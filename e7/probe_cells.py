#!/usr/bin/env python3
"""Runs selected C20 cells with a large cap to settle whether they violate (used to decide known-findings entries).
usage: probe_cells.py <cap_s> <workers> <par> spec:mv:fault:dead ...   (fault/dead = digit or '-')"""
import sys, json, os
sys.path.insert(0, os.path.dirname(os.path.abspath(__file__)))
import tlc_matrix as T
from concurrent.futures import ThreadPoolExecutor
cap, workers, par = int(sys.argv[1]), int(sys.argv[2]), int(sys.argv[3])
os.makedirs(os.path.join(T.VERIF, 'scratch'), exist_ok=True)
sp = dict(T.SPECS)
def one(a):
    spec, mv, f, d = a.split(':')
    fs = frozenset() if f == '-' else frozenset([int(f)])
    ds = frozenset() if d == '-' else frozenset([int(d)])
    r = T.run_cell(spec, sp[spec], int(mv), fs, ds, T.NAMED_INVARIANTS, cap, workers)
    r.pop('trace', None)
    print(json.dumps({k: r.get(k) for k in ('cell', 'status', 'violated_invariant', 'states', 'depth', 'trace_states', 'wall_s')}), flush=True)
with ThreadPoolExecutor(max_workers=par) as ex:
    list(ex.map(one, sys.argv[4:]))
