#!/bin/bash
# usage: verify_c20_seed.sh <seed dir>  -- confirms a TLA+ seed: patch applies, Go suite passes with it, demo.sh reports a violation with it and none without
set -u
SEED=$(cd "$1" && pwd); WT=/tmp/wt/verify-c20
export GOFLAGS=-mod=mod GOPROXY=off GOTOOLCHAIN=local
git -C /repo worktree remove --force $WT >/dev/null 2>&1
git -C /repo worktree add -q --detach $WT HEAD || exit 2
head=$(git -C /repo rev-parse HEAD)
sh $SEED/demo.sh $WT > /tmp/c20_without.txt 2>&1; rc_without=$?
(cd $WT && git apply $SEED/patch.diff) ; applies=$?
(cd $WT && go1.26.8 build ./... && go1.26.8 test -vet=off -count=1 ./... >/dev/null 2>&1); suite=$?
sh $SEED/demo.sh $WT > /tmp/c20_with.txt 2>&1; rc_with=$?
python3 - <<PY
import json
res={"repo_head":"$head","applies":$applies==0,"suite_passes_with_patch":$suite==0,"demo_fails_with_patch":$rc_with!=0,"demo_passes_without_patch":$rc_without==0,
 "demo_out_with":open('/tmp/c20_with.txt').read()[-500:],"demo_run":"sh demo.sh <repo root>"}
res["ok"]=all([res["applies"],res["suite_passes_with_patch"],res["demo_fails_with_patch"],res["demo_passes_without_patch"]])
json.dump(res,open("$SEED/verified.json","w"),indent=1); print("$SEED", "OK" if res["ok"] else "NOT OK", {k:v for k,v in res.items() if isinstance(v,bool)})
PY
git -C /repo worktree remove --force $WT
