#!/usr/bin/env python3
"""Independently confirms a seeded defect: patch applies, suite passes with it,
demo fails with it and passes without it. Usage: verify_seed.py <seed dir>... ; results -> <seed dir>/verified.json"""
import json, os, re, subprocess, sys, shutil, glob
ENV = dict(os.environ, GOFLAGS='-mod=mod', GOPROXY='off', GOTOOLCHAIN='local')
WT = '/tmp/wt/verify'
def sh(cmd, cwd=None, timeout=900):
    p = subprocess.run(cmd, shell=True, cwd=cwd, env=ENV, capture_output=True, text=True, timeout=timeout)
    return p.returncode, (p.stdout + p.stderr)[-3000:]
def fresh():
    head = subprocess.check_output(['git','-C','/repo','rev-parse','HEAD'], text=True).strip()
    if not os.path.isdir(WT):
        sh(f'git -C /repo worktree add -q --detach {WT} {head}')
    sh(f'git reset -q --hard && git checkout -q --detach {head} && git reset -q --hard {head} && git clean -fdq', cwd=WT)
    return head
def main():
    for d in sys.argv[1:]:
        d = d.rstrip('/')
        meta = json.load(open(d + '/meta.json'))
        head = fresh()
        res = {'repo_head': head}
        demos = [f for f in glob.glob(d + '/*_test.go')]
        demo_txt = meta.get('demo', '')
        sub = '.'
        if demos:
            pk = re.search(r'^package\s+(\w+)', open(demos[0]).read(), re.M).group(1)
            sub = {'dbft_test': '.', 'dbft': '.', 'timer': 'timer', 'timer_test': 'timer', 'main': 'internal/simulation',
                   'consensus': 'internal/consensus', 'consensus_test': 'internal/consensus', 'crypto': 'internal/crypto', 'merkle': 'internal/merkle'}.get(pk, '.')
        m = re.search(r"-run\s+'?([A-Za-z0-9_|]+)", demo_txt)
        pat = m.group(1) if m else 'Test'
        rc, out = sh(f'git apply --check {d}/patch.diff', cwd=WT)
        if rc != 0:
            rc2, out2 = sh(f'git apply --3way {d}/patch.diff', cwd=WT)
            res['applies'] = rc2 == 0; res['apply_note'] = '3way' if rc2 == 0 else out + out2
            if rc2 != 0:
                json.dump(res, open(d + '/verified.json', 'w'), indent=1); print(d, 'PATCH DOES NOT APPLY'); continue
            sh('git reset -q', cwd=WT)
        else:
            sh(f'git apply {d}/patch.diff', cwd=WT); res['applies'] = True
        rc, out = sh('go1.26.8 build ./... && go1.26.8 build -tags verif ./... && go1.26.8 test -vet=off -count=1 ./...', cwd=WT)
        res['suite_passes_with_patch'] = rc == 0
        if rc != 0: res['suite_out'] = out
        def run_demo():
            for f in demos: shutil.copy(f, os.path.join(WT, sub, 'zz_' + os.path.basename(f)))
            rc, out = sh(f"go1.26.8 test -vet=off -count=1 -run '{pat}' ./{sub}/", cwd=WT)
            for f in demos: os.remove(os.path.join(WT, sub, 'zz_' + os.path.basename(f)))
            return rc, out
        if demos:
            rc, out = run_demo(); res['demo_fails_with_patch'] = rc != 0; res['demo_out_with'] = out[-600:]
            sh('git reset -q --hard', cwd=WT)
            rc, out = run_demo(); res['demo_passes_without_patch'] = rc == 0
            if rc != 0: res['demo_out_without'] = out[-1500:]
        sh('git reset -q --hard && git clean -fdq', cwd=WT)
        res['ok'] = bool(res.get('applies') and res.get('suite_passes_with_patch') and res.get('demo_fails_with_patch') and res.get('demo_passes_without_patch'))
        res['demo_run'] = f"cp <demo> {sub}/ ; go1.26.8 test -vet=off -count=1 -run '{pat}' ./{sub}/"
        json.dump(res, open(d + '/verified.json', 'w'), indent=1)
        print(d, 'OK' if res['ok'] else 'NOT OK', {k: v for k, v in res.items() if k.endswith('patch') or k == 'applies'})
main()
