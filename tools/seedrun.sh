#!/bin/bash
# usage: seedrun.sh <seed dir> <check id> [tier]  -- applies the seeded patch in a scratch worktree and runs one check against it
# prints: <seed> <check> exit=<rc> + VIOLATION lines; evidence/replays go to /tmp/seedout/<seed>/
set -u
HERE=$(cd "$(dirname "$0")/.." && pwd)
SEED=$(cd "$1" && pwd); ID=$2; TIER=${3:-quick}
name=$(basename "$SEED")
WT=/tmp/wt/seedrun-$name-$ID
OUT=/tmp/seedout/$name-$ID
mkdir -p "$OUT"
git -C /repo worktree remove --force "$WT" >/dev/null 2>&1
git -C /repo worktree add -q --detach "$WT" HEAD || exit 2
(cd "$WT" && (git apply "$SEED/patch.diff" || git apply --3way "$SEED/patch.diff")) || { echo "$name $ID patch-failed"; exit 2; }
VERIF_REPO=$WT VERIF_OUT=$OUT VERIF_PAR=${VERIF_PAR:-8} $HERE/check "$ID" --tier "$TIER" > "$OUT/$ID.out" 2> "$OUT/$ID.err"
rc=$?
echo "$name $ID exit=$rc $(grep -c '^VIOLATION' "$OUT/$ID.out") violation(s): $(grep -h 'violation C' "$OUT/$ID.err" | head -3 | cut -c1-200 | tr '\n' '|')"
git -C /repo worktree remove --force "$WT"
rm -rf "$HERE/scratch/$(echo "$WT" | tr '/' '_')"
exit $rc
