#!/bin/bash
# usage: seedbatch.sh <par> <seed:check>...   runs seedrun for each pair, <par> at a time; appends to /verif/seeded/results.tsv
PAR=$1; shift
HERE=$(cd "$(dirname "$0")/.." && pwd)
mkdir -p /tmp/seedout
printf '%s\n' "$@" | xargs -P "$PAR" -I{} bash -c 's={}; seed=${s%%:*}; chk=${s##*:}; out=$(VERIF_PAR='$((16/PAR))' '$HERE'/tools/seedrun.sh '$HERE'/seeded/$seed $chk quick 2>&1 | tail -1); echo -e "$seed\t$chk\t$out" >> '$HERE'/seeded/results.tsv'
