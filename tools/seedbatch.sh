#!/bin/bash
# usage: seedbatch.sh <par> <seed:check>...   runs seedrun for each pair, <par> at a time; appends to /verif/seeded/results.tsv
PAR=$1; shift
mkdir -p /tmp/seedout
printf '%s\n' "$@" | xargs -P "$PAR" -I{} bash -c 's={}; seed=${s%%:*}; chk=${s##*:}; out=$(VERIF_PAR='$((16/PAR))' /verif/tools/seedrun.sh /verif/seeded/$seed $chk quick 2>&1 | tail -1); echo -e "$seed\t$chk\t$out" >> /verif/seeded/results.tsv'
