#!/usr/bin/env python3
"""Generates the named mutants of DESIGN.md section 4 as patches under /verif/seeded/own/<name>/patch.diff
(each from a fresh scratch worktree of /repo HEAD), and records whether the pinned suite still passes with it.
usage: own_mutants.py gen"""
import json, os, subprocess, sys

ENV = dict(os.environ, GOFLAGS='-mod=mod', GOPROXY='off', GOTOOLCHAIN='local')
WT = '/tmp/wt/own'
OUT = '/verif/seeded/own'

# (name, property/check, file, old, new)
M = [
 ("C01-F-is-N-div-3", "C01", "context.go", "return (len(c.Validators) - 1) / 3 }", "return len(c.Validators) / 3 }"),
 ("C01-changeview-threshold-M-1", "C04", "check.go", "	if count < d.M() {\n		return\n	}\n\n	if !d.Context.WatchOnly() {", "	if count < d.M()-1 {\n		return\n	}\n\n	if !d.Context.WatchOnly() {"),
 ("C01-no-commit-guard-in-onChangeView", "C03", "dbft.go", "	if d.CommitSent() || d.PreCommitSent() {\n		d.Logger.Debug(\"ignoring ChangeView: preCommit or commit sent\")\n		d.sendRecoveryMessage()\n		return\n	}\n", ""),
 ("C02-commits-of-any-view-counted", "C02", "check.go", "	for _, msg := range d.CommitPayloads {\n		if msg != nil && msg.ViewNumber() == d.ViewNumber {\n			count++", "	for _, msg := range d.CommitPayloads {\n		if msg != nil {\n			count++"),
 ("C02-no-signature-check-in-onCommit", "C02", "dbft.go", "			if err := header.Verify(pub, msg.GetCommit().Signature()); err == nil {\n				d.checkCommit()", "			if err := error(nil); err == nil || pub == nil {\n				d.checkCommit()"),
 ("C02-commit-quorum-M-1", "C02", "check.go", "	if count < d.M() {\n		d.Logger.Debug(\"not enough to commit\"", "	if count < d.M()-1 {\n		d.Logger.Debug(\"not enough to commit\""),
 ("C03-no-commit-guard-in-onRecoveryMessage", "C03", "dbft.go", "		if d.CommitSent() || d.PreCommitSent() {\n			return\n		}\n\n		for _, m := range recovery.GetChangeViews", "		for _, m := range recovery.GetChangeViews"),
 ("C03-makeCommit-ignores-stored", "C03", "send.go", "	if msg := c.CommitPayloads[c.MyIndex]; msg != nil {\n		return msg, nil\n	}\n", ""),
 ("C04-prepare-quorum-M-1", "C04", "check.go", "	if hasRequest && count >= d.M() {", "	if hasRequest && count >= d.M()-1 {"),
 ("C04-no-hash-comparison-in-updateExistingPayloads", "C04", "dbft.go", "			if resp != nil && resp.PreparationHash() != msg.Hash() {\n				d.PreparationPayloads[i] = nil\n			}", "			_, _ = i, resp"),
 ("C04-no-primary-check-in-onPrepareRequest", "C04", "dbft.go", "	} else if uint(msg.ValidatorIndex()) != d.GetPrimaryIndex(d.ViewNumber) {\n		d.Logger.Info(\"ignoring PrepareRequest from wrong node\", zap.Uint16(\"from\", msg.ValidatorIndex()))\n		return\n	}", "	}"),
 ("C05-no-BlockSent-gate-in-OnReceive", "C05", "dbft.go", "	if d.BlockSent() && msg.Type() != RecoveryRequestType {\n		// We've already collected the block, only recovery request must be handled.\n		return\n	}\n", ""),
 ("C05-commits-not-cleared-at-new-height", "C05", "context.go", "		c.CommitPayloads = emptyReusableSlice(c.CommitPayloads, n)\n", "		if len(c.CommitPayloads) != n {\n			c.CommitPayloads = make([]ConsensusPayload[H], n)\n		}\n"),
 ("C07-commit-without-own-precommit", "C07", "check.go", "	if d.PreCommitSent() {\n		d.verifyCommitPayloadsAgainstHeader()", "	if d.PreCommitSent() || !d.Context.WatchOnly() {\n		d.verifyCommitPayloadsAgainstHeader()"),
 ("C07-amev-enabled-one-height-late", "C07", "context.go", "uint32(c.Config.AntiMEVExtensionEnablingHeight) <= c.BlockIndex", "uint32(c.Config.AntiMEVExtensionEnablingHeight) < c.BlockIndex"),
 ("C07-header-before-preblock", "C07", "context.go", "			if !c.preBlockProcessed {\n				return nil\n			}", "			_ = c.preBlockProcessed"),
 ("C08-future-messages-not-cached", "C08", "dbft.go", "		d.cache.addMessage(msg)\n		return", "		return"),
 ("C08-backup-timeout-one-shift-less", "C08", "dbft.go", "		timeout = d.timePerBlock << (d.ViewNumber + 1)\n	}\n	if d.lastBlockIndex+1", "		timeout = d.timePerBlock << d.ViewNumber\n	}\n	if d.lastBlockIndex+1"),
 ("C09-recovery-responder-window-F-1", "C09", "dbft.go", "+d.N()-1)%d.N() > d.F() {", "+d.N()-1)%d.N() > d.F()-1 {"),
 ("C09-recovery-message-without-changeviews", "C09", "send.go", "	for _, p := range cv {\n		if p != nil {\n			recovery.AddPayload(p)\n		}\n	}", "	_ = cv"),
 ("C09-no-recovery-request-on-timeout", "C09", "send.go", "		d.sendRecoveryRequest()\n\n		return", "		return"),
 ("C10-no-timer-after-resending-commit", "C10", "dbft.go", "			d.sendRecoveryMessage()\n			d.changeTimer(d.timePerBlock << 1)", "			d.sendRecoveryMessage()"),
 ("C10-timer-armed-with-old-view", "C10", "send.go", "	newView := d.ViewNumber + 1\n	d.changeTimer(d.timePerBlock << (newView + 1))", "	newView := d.ViewNumber + 1\n	d.Timer.Reset(d.BlockIndex, d.ViewNumber+1, d.timePerBlock<<(newView+1))"),
 ("C11-extendTimer-before-duplicate-check", "C11", "dbft.go", "	existing := d.CommitPayloads[msg.ValidatorIndex()]\n	if existing != nil {", "	d.extendTimer(1)\n	existing := d.CommitPayloads[msg.ValidatorIndex()]\n	if existing != nil {"),
 ("C11-unrequested-tx-accepted", "C11", "dbft.go", "	if i < 0 {\n		return\n	}\n", "	if i < 0 {\n		d.Transactions[tx.Hash()] = tx\n		return\n	}\n"),
 ("C12-hasAllTransactions-off-by-one", "C12", "context.go", "return len(c.TransactionHashes) == len(c.Transactions)", "return len(c.TransactionHashes) == len(c.Transactions) && len(c.Transactions) != 3"),
 ("C13-no-watchonly-test-in-onTimeout", "C13", "dbft.go", "	if d.Context.WatchOnly() || d.BlockSent() {\n		return\n	}\n\n	if height != d.BlockIndex", "	if d.BlockSent() {\n		return\n	}\n\n	if height != d.BlockIndex"),
 ("C13-no-watchonly-test-in-sendChangeView", "C13", "send.go", "func (d *DBFT[H]) sendChangeView(reason ChangeViewReason) {\n	if d.Context.WatchOnly() {\n		return\n	}\n", "func (d *DBFT[H]) sendChangeView(reason ChangeViewReason) {\n"),
 ("C14-timestamp-from-wall-clock", "C14", "context.go", "return uint64(c.Config.Timer.Now().UnixNano()) / c.Config.TimestampIncrement", "return uint64(time.Now().UnixNano()) / c.Config.TimestampIncrement"),
 ("C14-lastBlockTime-from-wall-clock", "C14", "check.go", "		d.lastBlockTime = d.Timer.Now()", "		d.lastBlockTime = time.Now()"),
 ("C15-timestamp-not-strictly-greater", "C15", "context.go", "	c.Timestamp = c.lastBlockTimestamp + c.Config.TimestampIncrement\n", "	c.Timestamp = c.lastBlockTimestamp\n"),
 ("C15-no-truncation", "C15", "context.go", "/ c.Config.TimestampIncrement * c.Config.TimestampIncrement", "/ 1"),
 ("C15-hashes-from-map", "C15", "context.go", "	for i := range txx {\n		h := txx[i].Hash()\n		c.TransactionHashes[i] = h\n		c.Transactions[h] = txx[i]\n	}", "	for i := range txx {\n		c.Transactions[txx[i].Hash()] = txx[i]\n	}\n	i := 0\n	for h := range c.Transactions {\n		c.TransactionHashes[i] = h\n		i++\n	}"),
 ("C16-waits-max-instead-of-max-minus-min", "C16", "send.go", "			delay := d.maxTimePerBlock - d.timePerBlock\n", "			delay := d.maxTimePerBlock\n"),
 ("C16-force-ignored-on-new-transaction", "C16", "dbft.go", "	d.onTimeout(d.Timer.Height(), d.Timer.View(), true)", "	d.onTimeout(d.Timer.Height(), d.Timer.View(), false)"),
 ("C18-no-drain", "C18", "timer/timer.go", "		drain(t.ch)\n", ""),
 ("C18-extend-replaces-duration", "C18", "timer/timer.go", "	t.d += d\n", "	t.d = d\n"),
 ("C19-nonce-not-encoded", "C19", "internal/consensus/prepare_request.go", "		Nonce:             p.nonce,\n", ""),
 ("C19-merkle-parent-hashes-left-child-only", "C19", "internal/merkle/merkle_tree.go", "		data := append(parents[i].Left.Hash[:], parents[i].Right.Hash[:]...)", "		data := append(parents[i].Left.Hash[:], parents[i].Left.Hash[:]...)"),
 ("C20-accept-with-M-1-commits", "C20", "formal-models/dbft/dbft.tla", "msg.type = \"Commit\" /\\ msg.view = rmState[r].view}) >= M\n  /\\ rmState' = [rmState EXCEPT ![r].type = \"blockAccepted\"]", "msg.type = \"Commit\" /\\ msg.view = rmState[r].view}) >= M - 1\n  /\\ rmState' = [rmState EXCEPT ![r].type = \"blockAccepted\"]"),
 ("C17-reset-removed", "C17", "internal/simulation/main.go", "		if n.height >= n.d.BlockIndex {\n			n.d.Reset(n.lastTimestamp)\n		}\n", ""),
]

def sh(cmd, cwd=None):
    p = subprocess.run(cmd, shell=True, cwd=cwd, env=ENV, capture_output=True, text=True)
    return p.returncode, (p.stdout + p.stderr)[-1500:]

def main():
    head = subprocess.check_output(['git', '-C', '/repo', 'rev-parse', 'HEAD'], text=True).strip()
    sh(f'git -C /repo worktree remove --force {WT}')
    sh(f'git -C /repo worktree add -q --detach {WT} {head}')
    os.makedirs(OUT, exist_ok=True)
    index = []
    for name, prop, f, old, new in M:
        sh('git reset -q --hard && git clean -fdq', cwd=WT)
        path = os.path.join(WT, f)
        s = open(path).read()
        if old is None:
            if 'merkle' in name:
                import re
                m = re.search(r'copy\(b\[crypto\.Uint256Size:\], [^\n]*\)\n', s)
                if not m:
                    print(name, 'ANCHOR NOT FOUND'); continue
                s = s.replace(m.group(0), '')
            else:
                import re
                m = re.search(r'(RMAcceptBlock\(r\) ==.*?)>= M', s, re.S)
                if not m:
                    print(name, 'ANCHOR NOT FOUND'); continue
                s = s[:m.end()] + ' - 1' + s[m.end():]
        else:
            if s.count(old) != 1:
                print(name, 'ANCHOR NOT FOUND or ambiguous', s.count(old)); continue
            s = s.replace(old, new)
        if 'time.Now()' in (new or '') and '"time"' not in s:
            s = s.replace('import (\n', 'import (\n\t"time"\n', 1)
        open(path, 'w').write(s)
        if f.endswith('.go'):
            sh(f'gofmt -w {f}', cwd=WT)
        rc, out = sh('go1.26.8 build ./... && go1.26.8 build -tags verif ./...', cwd=WT)
        if rc != 0:
            print(name, 'DOES NOT COMPILE', out[-300:]); continue
        rc, out = sh('go1.26.8 test -vet=off -count=1 ./...', cwd=WT)
        d = os.path.join(OUT, name)
        os.makedirs(d, exist_ok=True)
        diff = subprocess.check_output(['git', 'diff'], cwd=WT, text=True)
        open(os.path.join(d, 'patch.diff'), 'w').write(diff)
        meta = {"property": prop, "origin": "named mutant of DESIGN.md section 4 (written by me, so not independent of the checks)",
                "suite_passes_with_patch": rc == 0, "repo_head": head}
        json.dump(meta, open(os.path.join(d, 'meta.json'), 'w'), indent=1)
        index.append((name, prop, rc == 0))
        print(name, prop, 'suite passes' if rc == 0 else 'SUITE FAILS')
    sh(f'git -C /repo worktree remove --force {WT}')
    json.dump(index, open(os.path.join(OUT, 'index.json'), 'w'), indent=1)

main()
