#!/bin/bash
# usage: intake.sh <ID>...  copies /tmp/seedwt/<ID>.out/{e,f} into seeded/<ID>-e, -f and verifies them (serial)
for id in "$@"; do
  for v in ${VARIANTS:-e f}; do
    src=/tmp/seedwt/$id.out/$v; dst=/verif/seeded/$id-$v
    [ -f $src/patch.diff ] || { echo "$id-$v: no patch"; continue; }
    mkdir -p $dst; cp $src/* $dst/
    python3 /verif/tools/verify_seed.py $dst
  done
done
