#!/bin/bash
# runs every registered check at the given tier (default quick), prints one line per check
cd "$(dirname "$0")"
TIER=${1:-quick}
for id in $(python3 -c "import json;print(' '.join(c['property_id'] for c in json.load(open('MANIFEST.json'))['checks']))"); do
  s=$(date +%s)
  ./check $id --tier $TIER > /tmp/runall_$id.out 2> /tmp/runall_$id.err
  rc=$?
  echo "$id rc=$rc $(( $(date +%s) - s ))s $(grep -c '^VIOLATION' /tmp/runall_$id.out) violations, $(grep -c '^KNOWN-FINDING' /tmp/runall_$id.out) known | $(tail -1 /tmp/runall_$id.out | cut -c1-150)"
done
